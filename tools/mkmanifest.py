#!/usr/bin/env python3
"""Regenerates /verif/MANIFEST.json (kept valid against /root/.vp/MANIFEST.schema.json)."""
import json, os
ROOT = os.path.dirname(os.path.dirname(os.path.abspath(__file__)))

TEXT = {
 "C01": ("seeded search over simulated runs: real Builder/Display/transports drive a MIPI-DCS controller model; decoded frame memory is compared with an independent placement reference after every call. Sampling over the product size x offset x orientation x entry point x transport, incl. 1x1 and 65535x65535 external models, real panel geometries, restarts (release + init on the same simulated hardware), builder setter orders and by-reference interfaces; a clean batch is evidence, not proof.", "9/C01, 16"),
 "C02": ("seeded search with coordinates from a boundary distribution over i32 x i32 and rectangles in every relation to the display, both `batch` settings, checked and wrapping arithmetic builds; oracle: no panic, Ok, nothing outside the panel window or the framebuffer, in-bounds remainder exact.", "9/C02"),
 "C03": ("twin simulation: the same in-bounds stream through draw_iter and through set_pixel on identical simulated worlds; frame memories compared with each other and with the reference; stream shapes target the row/block capacities (49/50/51, 99/100/101, exact-fill and overflow blocks, trailing single-pixel rows).", "9/C03"),
 "C04": ("seeded search over rectangles in every relation to the display and self-indexing colour streams of all lengths; thorough tier additionally runs the workload against a shadow build in which the 16-bit-pointer take/nth helpers are the ones compiled.", "9/C04"),
 "C05": ("exhaustive over all colour values per (colour type, bus width) pairing, decoded by the simulated controller with the COLMOD the model's own init announced; models/options sampled.", "9/C05"),
 "C06": ("seeded search over transport-level programs on the real SpiInterface over a simulated SPI device: exact (DC, byte) stream equality and bounded-liveness budget on transactions (a hang becomes a finite, replayable failure).", "9/C06"),
 "C07": ("seeded search: words sampled by the simulated bus at every WR rising edge vs the words sent; bus-level histories of set_value with injected single data-pin failures of two kinds (level unchanged / level changed but error reported).", "9/C07"),
 "C08": ("grammar monitor over the controller-side event stream of every drawing call across the union of the other drawing workloads, with orientation changes in between.", "9/C08"),
 "C09": ("small scope exhaustive ({0..7}^4 on 3x5 and 5x3) plus seeded boundary search on extreme framebuffers; the 'nothing touched' clause is read off the world's event log (pins, delay source, bus).", "9/C09"),
 "C10": ("seeded histories of set_orientation with drawing in between, compared with a freshly built twin on an identical simulated world (reported state, MADCTL latched by the controller, bus trace byte for byte, frame memory vs reference).", "9/C10"),
 "C11": ("complete enumeration of the option space at Interface level plus seeded runs on the real transports; oracle on controller state and virtual-time line when init returns.", "9/C11"),
 "C12": ("fault enumeration: for each sampled (configuration, call incl. init of every model, every drawing entry point, TestImage, orientation/scroll/tearing/sleep/wake, restart) every low-level operation index k of that call x every applicable fault kind (pin error with and without level change; SPI error before / torn at one sampled cut / after delivery; Interface-call error) is executed from scratch; error identity by unique payload, no further pin/bus operation, no panic, then recovery under the exact picture, orientation and MADCTL oracles. Plus mixed histories with 0-3 faults and a retrying / non-retrying client. Sampled over configurations and calls, complete over k and kind.", "9/C12, 16"),
 "C13": ("seeded call histories on a virtual clock: driver flag vs reference vs controller sleep state after every call, 120 ms lower bounds read off the virtual time line; fault sub-mode for 'last successful'.", "9/C13"),
 "C16": ("seeded search with boundary values around the framebuffer height and the u16 limit on all built-in heights and heights 1/257/65535; oracle on the scroll registers the controller latched.", "9/C16"),
 "C17": ("pattern check over the unified timeline of reset-pin edges, delays and bus events of init on every built-in model x supported real transport x reset pin yes/no.", "9/C17"),
 "C19": ("TestImage through a real Display onto the simulated controller for every window size up to 48 (quick) / 96 (thorough), on a plain clipping target for every size from 0x0 with three colour types, and the consequence clause by injecting one wrong setting at a time.", "9/C19"),
 "C20": ("bus-overhead counters of the simulation: RAMWR count per call against runs split at the measured row capacity, SPI transactions per burst against floor(b/usable)+1.", "9/C20"),
}
NOTE = "trusted: the controller model (sim/src/ctrl.rs, written from the DCS command set as the ILI9341/ST7789/ILI9486 data sheets state it), the reference placement table (sim/src/refm.rs), embedded-hal / embedded-graphics-core; zero-time bus, exact delays (adversarial for lower bounds); sampling, not proof."
TECH = {
 "C12": "deterministic simulation with fault enumeration (every low-level operation index x fault kind per sampled call) against a simulated controller and reference picture model",
}
DEFAULT_TECH = "deterministic simulation: seeded search over configurations/programs on simulated pins, SPI device, virtual clock and MIPI-DCS controller model, checked against a reference model"

checks = []
for pid in ["C01","C02","C03","C04","C05","C06","C07","C08","C09","C10","C11","C12","C13","C16","C17","C19","C20"]:
    text, ref = TEXT[pid]
    checks.append({
        "property_id": pid,
        "quick_cmd": "./verif check %s --tier quick" % pid,
        "thorough_cmd": "./verif check %s --tier thorough" % pid,
        "evidence_file": "/verif/evidence/%s.json" % pid,
        "replay_cmd_template": "./verif replay {path}",
        "engine": "mipidsi-sim",
        "level_claimed": {"category": "fault_enumeration" if pid == "C12" else "exploration", "text": text, "design_ref": "DESIGN.md section " + ref},
        "level_note": NOTE,
        "technique": TECH.get(pid, DEFAULT_TECH),
    })

m = {
 "version": 1,
 "setup_cmd": "./verif setup",
 "hooks": {
  "guard": "almindor_mipidsi_verif",
  "enable": "no hook was needed: every seam (OutputPin, SpiDevice, DelayNs, Interface, OutputBus, Model, DrawTarget) is already a generic parameter; the harness crate /verif/sim depends on /repo by path and rebuilds from its working tree",
  "baseline_off_cmd": "cd /repo && cargo test --workspace --no-fail-fast --offline",
  "source_commits": [],
  "add_only": True,
 },
 "engines": [{
  "name": "mipidsi-sim",
  "path": "/verif/sim",
  "serves_properties": [c["property_id"] for c in checks],
  "kind_free_text": "single-process deterministic simulator: world (virtual clock, pins, SPI device, fault plan, event log), MIPI-DCS controller model, reference picture model, seeded generators, minimiser, replay",
 }],
 "checks": checks,
 "notes": "Driver: ./verif (python3). Exit 0 held / 1 violation with VIOLATION line / 2 harness error. Default VERIF_SEED is fixed (20260926). Known findings: /verif/known_findings.json.",
 "not_applicable": [
  {"property_id": "C14", "reason": "Pure bit algebra of the SetAddressMode value type over 2x8x4 inputs and setter orders: no I/O, time, fault or system history; deciding it is finite enumeration, not simulation. Its bus-visible consequence (MADCTL latched by the controller vs a literal table) is observed under C10/C11."},
  {"property_id": "C15", "reason": "Pure algebra of Orientation/Rotation values and total parsing of 2^32 integer angles: no driver operation, I/O, time or fault involved. The geometry of each of the 8 orientations is observed under C01/C10."},
  {"property_id": "C18", "reason": "Pure serialisers (instruction, fill_params_buf) and a pass-through write_command: a function table over argument values with no state, time or fault dimension. Every command the driver itself sends is decoded by the controller model under the other checks."},
 ],
}
json.dump(m, open(os.path.join(ROOT, "MANIFEST.json"), "w"), indent=1)
print("MANIFEST.json written with %d checks" % len(checks))
