#!/usr/bin/env python3
"""mkmutant.py <name> <file> <old> <new> [<file> <old> <new> ...]: create /verif/mutants/<name>.patch from exact-string replacements in a scratch worktree."""
import subprocess, sys
W = "/tmp/mymut"
name = sys.argv[1]
args = sys.argv[2:]
subprocess.run(["git", "-C", W, "checkout", "-q", "--", "."], check=True)
for i in range(0, len(args), 3):
    f, old, new = args[i:i+3]
    p = W + "/" + f
    s = open(p).read()
    if s.count(old) != 1:
        sys.exit("%s: pattern occurs %d times in %s" % (name, s.count(old), f))
    open(p, "w").write(s.replace(old, new))
d = subprocess.run(["git", "-C", W, "diff"], stdout=subprocess.PIPE, text=True).stdout
open("/verif/mutants/%s.patch" % name, "w").write(d)
subprocess.run(["git", "-C", W, "checkout", "-q", "--", "."], check=True)
print(name, "ok", len(d.splitlines()), "lines")
