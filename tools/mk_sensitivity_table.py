#!/usr/bin/env python3
"""Writes /verif/mutants/SENSITIVITY.md from mutants/RESULTS.json (+ seeded/*/meta.json)."""
import json, os
ROOT = os.path.dirname(os.path.dirname(os.path.abspath(__file__)))
r = json.load(open(os.path.join(ROOT, "mutants", "RESULTS.json")))
own_desc = {}
lines = ["# Which checks catch which broken versions", "",
         "Produced by `tools/run_mutants.py` (each patch applied to a scratch worktree of /repo, existing suite run, every quick check run with VERIF_SCALE=%s, worktree reverted)." % next(iter(r.values())).get("scale", "1"),
         "`own` = flagged by the check of the property the change was written against.", ""]
def row(k, v):
    if k.startswith("seeded/"):
        name = k.split("/")[1]
        target = name.split("-")[0]
        meta = json.load(open(os.path.join(ROOT, "seeded", name, "meta.json")))
        needs = meta.get("needs_to_manifest", "")
        files = ",".join(meta.get("files_changed", []))
    else:
        name = os.path.basename(k).replace(".patch", "")
        target = name.split("_")[0].upper()
        needs = ""
        files = ""
        for l in open(os.path.join(ROOT, k)):
            if l.startswith("+++ b/"):
                files = l[6:].strip()
    fl = sorted(v.get("flagged", {}).keys())
    harness = [p for p, l in v.get("flagged", {}).items() if any("HARNESS" in x for x in l)]
    classes = []
    for x in v.get("flagged", {}).get(target, []):
        x = x.strip()
        if x.startswith("class="):
            classes.append(x.split()[0][6:])
    return name, target, files, needs, fl, ("yes" if target in fl else "NO"), ",".join(sorted(set(classes))), v.get("suite_passes"), harness
lines += ["## Changes written by independent sub-agents (given only the property text)", "",
          "| change | property | file | needs to manifest | suite passes | own check | class reported by own check | all checks that flag it |", "|---|---|---|---|---|---|---|---|"]
for k in sorted(r):
    if k.startswith("seeded/"):
        n, t, f, needs, fl, own, cl, sp, h = row(k, r[k])
        lines.append("| %s | %s | %s | %s | %s | %s | %s | %s |" % (n, t, f, needs, sp, own, cl, " ".join(fl)))
lines += ["", "## Own sensitivity patches (`/verif/mutants/*.patch`)", "",
          "| change | property | file | suite passes | own check | class reported by own check | all checks that flag it |", "|---|---|---|---|---|---|---|"]
for k in sorted(r):
    if not k.startswith("seeded/"):
        n, t, f, needs, fl, own, cl, sp, h = row(k, r[k])
        lines.append("| %s | %s | %s | %s | %s | %s | %s |" % (n, t, f, sp, own, cl, " ".join(fl)))
open(os.path.join(ROOT, "mutants", "SENSITIVITY.md"), "w").write("\n".join(lines) + "\n")
tot = len(r); own = sum(1 for k in r if row(k, r[k])[5] == "yes"); anyf = sum(1 for k in r if r[k].get("flagged"))
print("changes: %d, flagged by own check: %d, flagged by some check: %d" % (tot, own, anyf))
