#!/bin/bash
# run every quick check under many seeds on the unchanged tree; print anything that is not a clean pass
cd "$(dirname "$0")/.."
./verif setup >/dev/null || exit 2
from=${1:-100}; to=${2:-130}
for s in $(seq $from $to); do
  for p in C01 C02 C03 C04 C05 C06 C07 C08 C09 C10 C11 C12 C13 C16 C17 C19 C20; do
    out=$(VERIF_SEED=$s VERIF_SCALE=${VERIF_SCALE:-1} ./verif check $p 2>&1); rc=$?
    if [ $rc -ne 0 ]; then echo "seed=$s prop=$p rc=$rc"; echo "$out" | grep -E "VIOLATION|HARNESS|class=|detail" | head -5; cp -r replays "replays.seed$s.$p" 2>/dev/null; fi
  done
  echo "seed $s done $(date +%H:%M:%S)"
done
