#!/bin/bash
# every thorough command once on the unchanged tree; anything but a clean pass is printed
cd "$(dirname "$0")/.."
./verif setup >/dev/null || exit 2
for p in ${@:-C05 C09 C11 C17 C06 C07 C19 C12 C13 C16 C04 C03 C20 C02 C08 C10 C01}; do
  t0=$(date +%s)
  out=$(./verif check $p --tier thorough 2>&1); rc=$?
  echo "thorough $p rc=$rc $(( $(date +%s) - t0 ))s"
  echo "$out" | grep -E "^\[C|VIOLATION|HARNESS|class=" | head -12
  if [ $rc -ne 0 ]; then cp -r replays "replays.thorough.$p" 2>/dev/null; fi
done
