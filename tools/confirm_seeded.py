#!/usr/bin/env python3
"""confirm_seeded.py <id> <A|B> : confirm an independently written change in a scratch worktree
(/tmp/mymut): demo passes without, patch applies, both feature builds compile, existing suite passes
with it, demo fails with it. On success writes /verif/seeded/<id>-<x>/{patch.diff,demo.rs,meta.json}."""
import json, os, re, shutil, subprocess, sys
W = "/tmp/mymut"
def sh(cmd, cwd=W):
    p = subprocess.run(["bash", "-o", "pipefail", "-c", cmd], cwd=cwd, stdout=subprocess.PIPE, stderr=subprocess.STDOUT, text=True)
    return p.returncode, p.stdout
def main():
    pid, x = sys.argv[1], sys.argv[2]
    if not os.path.isdir(W):
        # scratch worktree of /repo; remove it afterwards: git -C /repo worktree remove --force /tmp/mymut
        subprocess.run(["git", "-C", "/repo", "worktree", "add", "-q", "--detach", W, "HEAD"], check=True)
    src = os.environ.get("MUTDIR", "/tmp/mut") + "/%s.out" % pid
    patch = "%s/%s.patch.diff" % (src, x)
    demo = "%s/%s.demo.rs" % (src, x)
    sh("git checkout -q -- . && git clean -fdq tests")
    demo_name = "seeded_demo_%s_%s" % (pid.lower(), x.lower())
    ran = []
    def suite():
        rc, out = sh("cargo test --workspace --no-fail-fast --offline 2>&1 | grep -E '^test result|^error' ")
        # a change may bring unit tests of its own: the 33 existing ones must pass, more may
        m = re.search(r"test result: ok\. (\d+) passed", out)
        ok = "FAILED" not in out and "error" not in out and m is not None and int(m.group(1)) >= 33
        return ok, out
    def run_demo():
        shutil.copy(demo, "%s/tests/%s.rs" % (W, demo_name))
        rc, out = sh("cargo test --offline --test %s 2>&1 | tail -25" % demo_name)
        rc2, out2 = sh("cargo test --offline --no-default-features --test %s 2>&1 | tail -8" % demo_name)
        os.remove("%s/tests/%s.rs" % (W, demo_name))
        return (rc == 0), (rc2 == 0), out, out2
    d_ok, d_ok_nb, out, out_nb = run_demo()
    ran.append("unmodified: demo default features pass=%s, no-default-features pass=%s" % (d_ok, d_ok_nb))
    if not d_ok:
        print("REJECT: demo does not pass on unmodified code\n" + out); return 1
    rc, out = sh("git apply --whitespace=nowarn %s" % patch)
    if rc != 0:
        print("REJECT: patch does not apply: " + out); return 1
    rc, out = sh("git diff --stat")
    files = re.findall(r"^\s*(\S+)\s*\|", out, re.M)
    if any(not f.startswith("src/") for f in files):
        print("REJECT: patch touches non-src files", files); sh("git checkout -q -- ."); return 1
    rc_b, out_b = sh("cargo build --offline 2>&1 | tail -3")
    rc_nb, out_nbb = sh("cargo build --offline --no-default-features 2>&1 | tail -3")
    s_ok, s_out = suite()
    m_ok, m_ok_nb, m_out, m_out_nb = run_demo()
    sh("git checkout -q -- .")
    ran.append("with patch: cargo build rc=%d, --no-default-features rc=%d, existing suite passes=%s, demo default features pass=%s, no-default-features pass=%s" % (rc_b, rc_nb, s_ok, m_ok, m_ok_nb))
    if rc_b or rc_nb or not s_ok:
        print("REJECT: build or suite fails with patch", rc_b, rc_nb, s_out); return 1
    if m_ok and m_ok_nb:
        print("REJECT: demo still passes with patch"); return 1
    dst = "/verif/seeded/%s-%s" % (pid, os.environ.get("MUTSUFFIX", "") + x)
    os.makedirs(dst, exist_ok=True)
    shutil.copy(patch, dst + "/patch.diff")
    shutil.copy(demo, dst + "/demo.rs")
    notes = open(src + "/notes.md").read() if os.path.exists(src + "/notes.md") else ""
    fail_line = [l for l in m_out.splitlines() if "panicked" in l or "assert" in l.lower()][:3]
    meta = {"breaks_property": pid, "files_changed": files, "author": "independent sub-agent given only the property text and a scratch worktree",
            "needs_to_manifest": "see notes", "confirmed_by_me": ran, "demo_failure_excerpt": fail_line,
            "demo_fails_only_with_batch_feature": (not m_ok) and m_ok_nb, "demo_fails_only_without_batch_feature": m_ok and (not m_ok_nb),
            "notes_from_author": notes}
    json.dump(meta, open(dst + "/meta.json", "w"), indent=1)
    print("KEEP %s-%s" % (pid, x), "|", "; ".join(ran))
    return 0
sys.exit(main())
