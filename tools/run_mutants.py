#!/usr/bin/env python3
"""Apply each patch (mutants/*.patch or seeded/*/patch.diff) to /repo, confirm it compiles and the
existing suite passes, run the quick checks, record which raise VIOLATION, revert. Never commits."""
import glob, json, os, subprocess, sys, time
ROOT = os.path.dirname(os.path.dirname(os.path.abspath(__file__)))
REPO = "/repo"
PROPS = ["C01","C02","C03","C04","C05","C06","C07","C08","C09","C10","C11","C12","C13","C16","C17","C19","C20"]

def sh(cmd, cwd=None, timeout=3600):
    p = subprocess.run(cmd, cwd=cwd, shell=isinstance(cmd, str), stdout=subprocess.PIPE, stderr=subprocess.STDOUT, text=True, timeout=timeout)
    return p.returncode, p.stdout

def clean():
    rc, out = sh(["git", "-C", REPO, "status", "--porcelain", "--untracked-files=no"])
    return out.strip() == ""

def main():
    pats = sys.argv[1:] or [os.path.join(ROOT, "mutants", "*.patch")]
    files = []
    for p in pats:
        files += sorted(glob.glob(p))
    outp = os.path.join(ROOT, "mutants", "RESULTS.json")
    results = json.load(open(outp)) if os.path.exists(outp) else {}
    tier = os.environ.get("MUT_TIER", "quick")
    props = os.environ.get("MUT_PROPS", ",".join(PROPS)).split(",")
    for f in files:
        name = os.path.relpath(f, ROOT)
        if not clean():
            sys.exit("/repo working tree is not clean")
        rc, out = sh(["git", "-C", REPO, "apply", "--whitespace=nowarn", f])
        if rc != 0:
            results[name] = {"error": "does not apply: " + out[-300:]}
            continue
        try:
            t0 = time.time()
            rc, out = sh("cargo test --workspace --no-fail-fast --offline 2>&1 | grep -E '^test result|error(\\[|:)' ", cwd=REPO)
            suite_ok = "FAILED" not in out and "error" not in out and "33 passed" in out
            rc2, out2 = sh("cargo build --offline --no-default-features 2>&1 | tail -3", cwd=REPO)
            entry = {"suite_passes": suite_ok, "nodefault_builds": "error" not in out2, "flagged": {}, "tier": tier}
            for p in props:
                rc, out = sh([os.path.join(ROOT, "verif"), "check", p, "--tier", tier], cwd=ROOT)
                if rc == 1:
                    lines = [l for l in out.splitlines() if l.startswith("VIOLATION") or l.strip().startswith("class=")]
                    entry["flagged"][p] = lines[:4]
                elif rc != 0:
                    entry["flagged"][p] = ["HARNESS-ERROR rc=%d: %s" % (rc, out[-400:])]
            entry["wall_s"] = round(time.time() - t0, 1)
            results[name] = entry
            print(name, "suite_ok=%s" % suite_ok, "flagged:", sorted(entry["flagged"].keys()), flush=True)
        finally:
            sh(["git", "-C", REPO, "checkout", "--", "."])
        json.dump(results, open(outp, "w"), indent=1)
    # leave the evidence files as written by a clean tree
    print("done; re-run the checks on the clean tree to refresh evidence")

if __name__ == "__main__":
    main()
