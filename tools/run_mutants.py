#!/usr/bin/env python3
"""Apply each patch (mutants/*.patch or seeded/*/patch.diff) to /repo, confirm it compiles and the
existing suite passes, run the quick checks, record which raise VIOLATION, revert. Never commits."""
import glob, json, os, subprocess, sys, time
ROOT = os.path.dirname(os.path.dirname(os.path.abspath(__file__)))
REPO = "/repo"
BASE = os.environ.get("MUT_BASE", "/tmp/mw")  # scratch worktrees and outputs of the parallel mode
PROPS = ["C01","C02","C03","C04","C05","C06","C07","C08","C09","C10","C11","C12","C13","C16","C17","C19","C20"]

def sh(cmd, cwd=None, timeout=3600):
    p = subprocess.run(cmd, cwd=cwd, shell=isinstance(cmd, str), stdout=subprocess.PIPE, stderr=subprocess.STDOUT, text=True, timeout=timeout)
    return p.returncode, p.stdout

def clean():
    rc, out = sh(["git", "-C", REPO, "status", "--porcelain", "--untracked-files=no"])
    return out.strip() == ""

def worker(args):
    """judge one patch in its own scratch worktree (VERIF_REPO / VERIF_OUT), several side by side"""
    f, slot, tier, props = args
    name = os.path.relpath(f, ROOT)
    wt = "%s/w%d" % (BASE, slot)
    out = "%s/o%d" % (BASE, slot)
    if not os.path.isdir(wt):
        os.makedirs(BASE, exist_ok=True)
        sh(["git", "-C", REPO, "worktree", "add", "-q", "--detach", wt, "HEAD"])
    sh(["git", "-C", wt, "checkout", "-q", "--detach", subprocess.run(["git", "-C", REPO, "rev-parse", "HEAD"], stdout=subprocess.PIPE, text=True).stdout.strip()])
    sh(["git", "-C", wt, "checkout", "-q", "--", "."])
    rc, o = sh(["git", "-C", wt, "apply", "--whitespace=nowarn", f])
    if rc != 0:
        return name, {"error": "does not apply: " + o[-300:]}
    env = dict(os.environ, VERIF_REPO=wt, VERIF_OUT=out, VERIF_SNAPSHOT_SRC="1", RAYON_NUM_THREADS=os.environ.get("MUT_THREADS", "4"))
    t0 = time.time()
    p = subprocess.run("cargo test --workspace --no-fail-fast --offline 2>&1 | grep -E '^test result|error(\\[|:)' ", cwd=wt, shell=True, stdout=subprocess.PIPE, stderr=subprocess.STDOUT, text=True)
    suite_ok = "FAILED" not in p.stdout and "error" not in p.stdout and "33 passed" in p.stdout
    entry = {"suite_passes": suite_ok, "flagged": {}, "tier": tier, "scale": os.environ.get("VERIF_SCALE", "1")}
    for pr in props:
        q = subprocess.run([os.path.join(ROOT, "verif"), "check", pr, "--tier", tier], cwd=ROOT, env=env, stdout=subprocess.PIPE, stderr=subprocess.STDOUT, text=True)
        lines = [l for l in q.stdout.splitlines() if l.startswith("VIOLATION") or l.strip().startswith("class=")]
        if q.returncode == 1 and any(l.startswith("VIOLATION") for l in lines):
            entry["flagged"][pr] = lines[:4]
        elif q.returncode != 0:
            entry["flagged"][pr] = ["HARNESS-ERROR rc=%d: %s" % (q.returncode, q.stdout[-400:])]
    entry["wall_s"] = round(time.time() - t0, 1)
    sh(["git", "-C", wt, "checkout", "-q", "--", "."])
    return name, entry


def parallel_main(files, jobs, tier, props, outp, results):
    import concurrent.futures as cf
    import queue
    slots = queue.Queue()
    for i in range(jobs):
        slots.put(i)
    def run(f):
        slot = slots.get()
        try:
            return worker((f, slot, tier, props))
        finally:
            slots.put(slot)
    with cf.ThreadPoolExecutor(jobs) as ex:
        for name, entry in ex.map(run, files):
            results[name] = entry
            print(name, "suite_ok=%s" % entry.get("suite_passes"), "flagged:", sorted(entry.get("flagged", {}).keys()), entry.get("error", ""), flush=True)
            json.dump(results, open(outp, "w"), indent=1)
    for i in range(jobs):
        sh(["git", "-C", REPO, "worktree", "remove", "--force", "%s/w%d" % (BASE, i)])
        sh("rm -rf %s/o%d" % (BASE, i))
    sh(["git", "-C", REPO, "worktree", "prune"])
    if BASE == "/tmp/mw":
        sh("rm -rf /tmp/verif-shadow-*")


def main():
    jobs = int(os.environ.get("MUT_JOBS", "0"))
    pats = sys.argv[1:] or [os.path.join(ROOT, "mutants", "*.patch")]
    files = []
    for p in pats:
        files += sorted(glob.glob(p))
    outp = os.environ.get("MUT_OUT") or os.path.join(ROOT, "mutants", "RESULTS.json")
    results = json.load(open(outp)) if os.path.exists(outp) else {}
    tier = os.environ.get("MUT_TIER", "quick")
    props = os.environ.get("MUT_PROPS", ",".join(PROPS)).split(",")
    if jobs > 0:
        return parallel_main(files, jobs, tier, props, outp, results)
    for f in files:
        name = os.path.relpath(f, ROOT)
        if not clean():
            sys.exit("/repo working tree is not clean")
        rc, out = sh(["git", "-C", REPO, "apply", "--whitespace=nowarn", f])
        if rc != 0:
            results[name] = {"error": "does not apply: " + out[-300:]}
            continue
        try:
            t0 = time.time()
            rc, out = sh("cargo test --workspace --no-fail-fast --offline 2>&1 | grep -E '^test result|error(\\[|:)' ", cwd=REPO)
            suite_ok = "FAILED" not in out and "error" not in out and "33 passed" in out
            rc2, out2 = sh("cargo build --offline --no-default-features 2>&1 | tail -3", cwd=REPO)
            entry = {"suite_passes": suite_ok, "nodefault_builds": "error" not in out2, "flagged": {}, "tier": tier}
            for p in props:
                rc, out = sh([os.path.join(ROOT, "verif"), "check", p, "--tier", tier], cwd=ROOT)
                lines = [l for l in out.splitlines() if l.startswith("VIOLATION") or l.strip().startswith("class=")]
                if rc == 1 and any(l.startswith("VIOLATION") for l in lines):
                    entry["flagged"][p] = lines[:4]
                elif rc != 0:
                    entry["flagged"][p] = ["HARNESS-ERROR rc=%d: %s" % (rc, out[-400:])]
            entry["wall_s"] = round(time.time() - t0, 1)
            results[name] = entry
            print(name, "suite_ok=%s" % suite_ok, "flagged:", sorted(entry["flagged"].keys()), flush=True)
        finally:
            sh(["git", "-C", REPO, "checkout", "--", "."])
        json.dump(results, open(outp, "w"), indent=1)
    # leave the evidence files as written by a clean tree
    print("done; re-run the checks on the clean tree to refresh evidence")

if __name__ == "__main__":
    main()
