//! Transport-level simulation (C06, C07): the real `SpiInterface`, `ParallelInterface`,
//! `Generic8BitBus`, `Generic16BitBus` over simulated SPI device and pins, no display.

use crate::exec::{classify_panic, Caught, RunStats, Violation};
use crate::rng::Rng;
use crate::world::{EvKind, Fault, FaultKind, Level, SimPin, SimSpi, World, WorldRef, PIN_DC, PIN_WR};
use mipidsi::interface::{Generic16BitBus, Generic8BitBus, Interface, OutputBus, ParallelInterface, SpiInterface};
use serde::{Deserialize, Serialize};
use std::cell::{Cell, RefCell};
use std::rc::Rc;

#[derive(Clone, Copy, Debug, PartialEq, Eq, PartialOrd, Ord, Serialize, Deserialize)]
pub enum XKind {
    Spi { buf: u32 },
    Par8,
    Par16,
    Bus8,
    Bus16,
    /// directed giant-count scenarios on lean counting stubs (real interface code, stubbed bus)
    LeanPar8,
    LeanPar16,
    LeanSpi { buf: u32 },
    /// a staging buffer of `bytes` zeroed, never touched bytes (lazily mapped): lengths whose
    /// pixel capacity does not fit 32 bits
    LeanSpiBig { bytes: u64 },
}

#[derive(Clone, Debug, PartialEq, Eq, Serialize, Deserialize)]
pub enum XOp {
    Cmd { op: u8, args: Vec<u8> },
    /// `data.len()` is a multiple of `n`; `inexact`: hand the driver an iterator whose
    /// size hint has a lower bound of 0 (as `filter`, `from_fn` or a clipping adapter do)
    Pixels {
        n: u8,
        data: Vec<u16>,
        #[serde(default)]
        inexact: bool,
    },
    Repeat { n: u8, pixel: Vec<u16>, count: u32 },
    SetValue { v: u16 },
}

#[derive(Clone, Debug, PartialEq, Eq, Serialize, Deserialize)]
pub struct XCase {
    pub property: String,
    pub seed: u64,
    pub kind: XKind,
    /// bit0 DC high, bit1 WR high initially
    pub init_levels: u8,
    pub ops: Vec<XOp>,
    pub faults: Vec<Fault>,
}

pub struct XOutcome {
    pub violation: Option<Violation>,
    pub harness_error: Option<String>,
    pub stats: RunStats,
    pub hash: u64,
    pub op_llops: Vec<(u64, u64)>,
    pub probes: XProbes,
}

#[derive(Default, Clone, Debug)]
pub struct XProbes {
    pub count_zero: u64,
    pub exact_multiple: u64,
    pub count_lt_capacity: u64,
    pub buf_not_multiple: u64,
    pub fast_path: u64,
    pub nearly_same: u64,
    pub cache_hit: u64,
    pub rewrite_after_failure: u64,
    pub retry_same_value: u64,
}

fn viol(c: &XCase, class: &str, call: &str, idx: i64, detail: String) -> Violation {
    Violation { property: c.property.clone(), class: class.into(), call: call.into(), op_index: idx, detail }
}

fn op_name(op: &XOp) -> &'static str {
    match op {
        XOp::Cmd { .. } => "send_command",
        XOp::Pixels { .. } => "send_pixels",
        XOp::Repeat { .. } => "send_repeated_pixel",
        XOp::SetValue { .. } => "set_value",
    }
}

fn expected_words(op: &XOp, out: &mut Vec<(bool, u16)>) {
    match op {
        XOp::Cmd { op, args } => {
            out.push((false, *op as u16));
            for &a in args {
                out.push((true, a as u16));
            }
        }
        XOp::Pixels { data, .. } => {
            for &w in data {
                out.push((true, w));
            }
        }
        XOp::Repeat { pixel, count, .. } => {
            for _ in 0..*count {
                for &w in pixel {
                    out.push((true, w));
                }
            }
        }
        XOp::SetValue { .. } => {}
    }
}

fn words_of(op: &XOp) -> u64 {
    match op {
        XOp::Cmd { args, .. } => 1 + args.len() as u64,
        XOp::Pixels { data, .. } => data.len() as u64,
        XOp::Repeat { pixel, count, .. } => pixel.len() as u64 * *count as u64,
        XOp::SetValue { .. } => 0,
    }
}

macro_rules! dispatch_n {
    ($n:expr, $f:ident, $di:expr, $($a:expr),*) => {
        match $n {
            1 => $f::<_, 1>($di, $($a),*),
            2 => $f::<_, 2>($di, $($a),*),
            3 => $f::<_, 3>($di, $($a),*),
            _ => $f::<_, 4>($di, $($a),*),
        }
    };
}

trait WordOf: Copy {
    fn from_u16(v: u16) -> Self;
}
impl WordOf for u8 {
    fn from_u16(v: u16) -> u8 {
        v as u8
    }
}
impl WordOf for u16 {
    fn from_u16(v: u16) -> u16 {
        v
    }
}

fn do_pixels<DI: Interface, const N: usize>(di: &mut DI, data: &[u16], inexact: bool) -> Result<(), DI::Error>
where
    DI::Word: WordOf,
{
    let it = data.chunks_exact(N).map(|c| {
        let mut a = [DI::Word::from_u16(0); N];
        for i in 0..N {
            a[i] = DI::Word::from_u16(c[i]);
        }
        a
    });
    if inexact && data.iter().fold(data.len() as u16, |a, b| a ^ *b) & 1 == 1 {
        // a stream that is not fused: it ends at its first None, whatever it would yield when
        // polled again must not reach the bus
        let n = data.len() / N;
        let mut it = it;
        let mut polls = 0usize;
        di.send_pixels(core::iter::from_fn(move || {
            polls += 1;
            if polls <= n {
                it.next()
            } else if polls == n + 1 || polls > n + 4 {
                None
            } else {
                Some([DI::Word::from_u16(0xA5); N])
            }
        }))
    } else if inexact {
        // lower bound 0, upper bound three more than what is really yielded
        let n = data.len() / N;
        let mut it = it;
        di.send_pixels((0..n + 3).filter_map(move |i| if i < n { it.next() } else { None }))
    } else {
        di.send_pixels(it)
    }
}

fn do_repeat<DI: Interface, const N: usize>(di: &mut DI, pixel: &[u16], count: u32) -> Result<(), DI::Error>
where
    DI::Word: WordOf,
{
    let mut a = [DI::Word::from_u16(0); N];
    for i in 0..N {
        a[i] = DI::Word::from_u16(pixel[i]);
    }
    di.send_repeated_pixel(a, count)
}

fn run_iface_op<DI: Interface>(di: &mut DI, op: &XOp) -> Result<(), String>
where
    DI::Word: WordOf,
{
    let r = match op {
        XOp::Cmd { op, args } => di.send_command(*op, args),
        XOp::Pixels { n, data, inexact } => dispatch_n!(*n, do_pixels, di, data, *inexact),
        XOp::Repeat { n, pixel, count } => dispatch_n!(*n, do_repeat, di, pixel, *count),
        XOp::SetValue { .. } => Ok(()),
    };
    r.map_err(|e| format!("{:?}", e))
}

fn make_world(c: &XCase) -> WorldRef {
    let width = match c.kind {
        XKind::Par16 | XKind::Bus16 | XKind::LeanPar16 => 16,
        _ => 8,
    };
    let mut w = World::new(width, None);
    w.record_words = true;
    w.log_enabled = true;
    w.pins[PIN_DC as usize] = if c.init_levels & 1 != 0 { Level::High } else { Level::Low };
    w.pins[PIN_WR as usize] = if c.init_levels & 2 != 0 { Level::High } else { Level::Low };
    w.faults = c.faults.clone();
    w.into_ref()
}

macro_rules! pins8 {
    ($w:expr) => {
        (
            SimPin::new($w, 0),
            SimPin::new($w, 1),
            SimPin::new($w, 2),
            SimPin::new($w, 3),
            SimPin::new($w, 4),
            SimPin::new($w, 5),
            SimPin::new($w, 6),
            SimPin::new($w, 7),
        )
    };
}
macro_rules! pins16 {
    ($w:expr) => {
        (
            SimPin::new($w, 0),
            SimPin::new($w, 1),
            SimPin::new($w, 2),
            SimPin::new($w, 3),
            SimPin::new($w, 4),
            SimPin::new($w, 5),
            SimPin::new($w, 6),
            SimPin::new($w, 7),
            SimPin::new($w, 8),
            SimPin::new($w, 9),
            SimPin::new($w, 10),
            SimPin::new($w, 11),
            SimPin::new($w, 12),
            SimPin::new($w, 13),
            SimPin::new($w, 14),
            SimPin::new($w, 15),
        )
    };
}

enum Iface<'a> {
    Spi(SpiInterface<'a, SimSpi, SimPin>),
    P8(ParallelInterface<Generic8BitBus<SimPin, SimPin, SimPin, SimPin, SimPin, SimPin, SimPin, SimPin>, SimPin, SimPin>),
    P16(
        ParallelInterface<
            Generic16BitBus<SimPin, SimPin, SimPin, SimPin, SimPin, SimPin, SimPin, SimPin, SimPin, SimPin, SimPin, SimPin, SimPin, SimPin, SimPin, SimPin>,
            SimPin,
            SimPin,
        >,
    ),
    B8(Generic8BitBus<SimPin, SimPin, SimPin, SimPin, SimPin, SimPin, SimPin, SimPin>),
    B16(Generic16BitBus<SimPin, SimPin, SimPin, SimPin, SimPin, SimPin, SimPin, SimPin, SimPin, SimPin, SimPin, SimPin, SimPin, SimPin, SimPin, SimPin>),
}

impl<'a> Iface<'a> {
    fn run(&mut self, op: &XOp) -> Result<(), String> {
        match self {
            Iface::Spi(d) => run_iface_op(d, op),
            Iface::P8(d) => run_iface_op(d, op),
            Iface::P16(d) => run_iface_op(d, op),
            Iface::B8(b) => match op {
                XOp::SetValue { v } => b.set_value(*v as u8).map_err(|e| format!("{:?}", e)),
                _ => Ok(()),
            },
            Iface::B16(b) => match op {
                XOp::SetValue { v } => b.set_value(*v).map_err(|e| format!("{:?}", e)),
                _ => Ok(()),
            },
        }
    }
}

// ------------------------------------------------------------------ lean counting stubs

#[derive(Default)]
struct LeanCounters {
    strobes: Cell<u64>,
    wr_level: Cell<u8>,
    dc_ops: Cell<u64>,
    bus_sets: Cell<u64>,
    bus_value: Cell<u16>,
    bad_strobe_value: Cell<u64>,
    expect_value: Cell<u16>,
    expect_cycle: RefCell<Vec<u16>>,
    tx: Cell<u64>,
    bytes: Cell<u64>,
    bad_bytes: Cell<u64>,
}

struct LeanWr(Rc<LeanCounters>);
struct LeanDc(Rc<LeanCounters>);
struct LeanBus<W>(Rc<LeanCounters>, core::marker::PhantomData<W>);
struct LeanSpiDev(Rc<LeanCounters>);

impl embedded_hal::digital::ErrorType for LeanWr {
    type Error = core::convert::Infallible;
}
impl embedded_hal::digital::OutputPin for LeanWr {
    #[inline]
    fn set_low(&mut self) -> Result<(), Self::Error> {
        self.0.wr_level.set(0);
        Ok(())
    }
    #[inline]
    fn set_high(&mut self) -> Result<(), Self::Error> {
        if self.0.wr_level.get() == 0 {
            self.0.strobes.set(self.0.strobes.get() + 1);
            // the word latched at this edge: position in the expected cycle
            let cyc = self.0.expect_cycle.borrow();
            let want = cyc[((self.0.strobes.get() - 1) % cyc.len() as u64) as usize];
            if self.0.bus_value.get() != want {
                self.0.bad_strobe_value.set(self.0.bad_strobe_value.get() + 1);
            }
        }
        self.0.wr_level.set(1);
        Ok(())
    }
}
impl embedded_hal::digital::ErrorType for LeanDc {
    type Error = core::convert::Infallible;
}
impl embedded_hal::digital::OutputPin for LeanDc {
    fn set_low(&mut self) -> Result<(), Self::Error> {
        self.0.dc_ops.set(self.0.dc_ops.get() + 1);
        Ok(())
    }
    fn set_high(&mut self) -> Result<(), Self::Error> {
        self.0.dc_ops.set(self.0.dc_ops.get() + 1);
        Ok(())
    }
}
macro_rules! lean_bus {
    ($w:ty, $kind:expr) => {
        impl OutputBus for LeanBus<$w> {
            type Word = $w;
            const KIND: mipidsi::interface::InterfaceKind = $kind;
            type Error = core::convert::Infallible;
            #[inline]
            fn set_value(&mut self, value: $w) -> Result<(), Self::Error> {
                self.0.bus_sets.set(self.0.bus_sets.get() + 1);
                self.0.bus_value.set(value as u16);
                Ok(())
            }
        }
    };
}
lean_bus!(u8, mipidsi::interface::InterfaceKind::Parallel8Bit);
lean_bus!(u16, mipidsi::interface::InterfaceKind::Parallel16Bit);

impl embedded_hal::spi::ErrorType for LeanSpiDev {
    type Error = core::convert::Infallible;
}
impl embedded_hal::spi::SpiDevice<u8> for LeanSpiDev {
    fn transaction(&mut self, ops: &mut [embedded_hal::spi::Operation<'_, u8>]) -> Result<(), Self::Error> {
        let c = &self.0;
        c.tx.set(c.tx.get() + 1);
        if c.tx.get() > LEAN_TX_BUDGET.with(|b| b.get()) {
            std::panic::panic_any(crate::world::SimAbort::Budget);
        }
        for op in ops.iter() {
            if let embedded_hal::spi::Operation::Write(b) = op {
                let cyc = c.expect_cycle.borrow();
                let n = cyc.len() as u64;
                let base = c.bytes.get();
                // whole pixels only, and the first and last pixel of the slice carry the pattern
                let check = |i: usize| b[i] as u16 != cyc[((base + i as u64) % n) as usize];
                let mut bad = (b.len() as u64 % n != 0) as u64;
                for i in 0..b.len().min(8) {
                    bad += check(i) as u64;
                }
                for i in b.len().saturating_sub(8)..b.len() {
                    bad += check(i) as u64;
                }
                if bad != 0 {
                    c.bad_bytes.set(c.bad_bytes.get() + bad);
                }
                c.bytes.set(base + b.len() as u64);
            }
        }
        Ok(())
    }
}

thread_local! {
    static LEAN_TX_BUDGET: Cell<u64> = Cell::new(u64::MAX);
}

fn exec_lean(c: &XCase) -> XOutcome {
    let mut out = XOutcome { violation: None, harness_error: None, stats: RunStats::default(), hash: 0, op_llops: Vec::new(), probes: XProbes::default() };
    let ctr = Rc::new(LeanCounters::default());
    ctr.wr_level.set(if c.init_levels & 2 != 0 { 1 } else { 0 });
    for (i, op) in c.ops.iter().enumerate() {
        let XOp::Repeat { n, pixel, count } = op else { continue };
        *ctr.expect_cycle.borrow_mut() = pixel.clone();
        ctr.strobes.set(0);
        ctr.bytes.set(0);
        ctr.tx.set(0);
        ctr.bad_bytes.set(0);
        ctr.bad_strobe_value.set(0);
        let want = *count as u64 * *n as u64;
        let name = "send_repeated_pixel";
        let r = match c.kind {
            XKind::LeanPar8 => {
                let mut di = ParallelInterface::new(LeanBus::<u8>(ctr.clone(), core::marker::PhantomData), LeanDc(ctr.clone()), LeanWr(ctr.clone()));
                crate::exec::guarded(|| dispatch_n!(*n, do_repeat, &mut di, pixel, *count).map_err(|e| format!("{:?}", e)))
            }
            XKind::LeanPar16 => {
                let mut di = ParallelInterface::new(LeanBus::<u16>(ctr.clone(), core::marker::PhantomData), LeanDc(ctr.clone()), LeanWr(ctr.clone()));
                crate::exec::guarded(|| dispatch_n!(*n, do_repeat, &mut di, pixel, *count).map_err(|e| format!("{:?}", e)))
            }
            XKind::LeanSpiBig { bytes } => {
                // zeroed allocation: pages the driver does not write are never committed
                let mut b: Vec<u8> = Vec::new();
                if b.try_reserve_exact(bytes as usize).is_err() {
                    out.harness_error = None;
                    out.stats.calls -= 0;
                    break;
                }
                drop(b);
                let mut b = vec![0u8; bytes as usize];
                let usable = ((bytes / *n as u64) * *n as u64).max(1);
                LEAN_TX_BUDGET.with(|x| x.set(64 + 4 * (want / usable + 1)));
                let mut di = SpiInterface::new(LeanSpiDev(ctr.clone()), LeanDc(ctr.clone()), &mut b);
                crate::exec::guarded(|| dispatch_n!(*n, do_repeat, &mut di, pixel, *count).map_err(|e| format!("{:?}", e)))
            }
            XKind::LeanSpi { buf } => {
                let mut b = vec![0x5Au8; buf as usize];
                let usable = ((buf as u64 / *n as u64) * *n as u64).max(1);
                LEAN_TX_BUDGET.with(|x| x.set(64 + 4 * (want / usable + 1)));
                let mut di = SpiInterface::new(LeanSpiDev(ctr.clone()), LeanDc(ctr.clone()), &mut b);
                crate::exec::guarded(|| dispatch_n!(*n, do_repeat, &mut di, pixel, *count).map_err(|e| format!("{:?}", e)))
            }
            _ => unreachable!(),
        };
        out.stats.calls += 1;
        out.stats.llops += ctr.strobes.get() * 2 + ctr.tx.get();
        match r {
            Err(p) => {
                match classify_panic(p) {
                    Caught::Harness(s) => out.harness_error = Some(s),
                    Caught::Budget => out.violation = Some(viol(c, "nontermination", name, i as i64, format!("{} did not return within its budget of bus transactions", brief(op)))),
                    Caught::Panic(m) => out.violation = Some(viol(c, "panic", name, i as i64, format!("{} in {}", m, brief(op)))),
                }
                break;
            }
            Ok(Err(e)) => {
                out.violation = Some(viol(c, "unexpected-error", name, i as i64, e));
                break;
            }
            Ok(Ok(())) => {
                out.stats.checked_calls += 1;
                let got = if matches!(c.kind, XKind::LeanSpi { .. } | XKind::LeanSpiBig { .. }) { ctr.bytes.get() } else { ctr.strobes.get() };
                if got != want || ctr.bad_bytes.get() != 0 || ctr.bad_strobe_value.get() != 0 {
                    out.violation = Some(viol(
                        c,
                        "wrong-words-on-bus",
                        name,
                        i as i64,
                        format!("{}: {} words/bytes delivered, {} expected; {} carried a wrong value", brief(op), got, want, ctr.bad_bytes.get() + ctr.bad_strobe_value.get()),
                    ));
                    break;
                }
            }
        }
    }
    let mut h = crate::rng::Fnv::default();
    h.u64(ctr.strobes.get());
    h.u64(ctr.bytes.get());
    h.u64(ctr.tx.get());
    out.hash = h.0;
    out
}

/// directed giant-count scenarios (index k); None when k is past the list for the tier
pub fn directed_case(prop: &str, k: u64, thorough: bool) -> Option<XCase> {
    let par: &[(XKind, u8, &[u16], u32)] = &[
        (XKind::LeanPar8, 2, &[0x33, 0x33], 1 << 20),
        (XKind::LeanPar8, 3, &[0x10, 0x10, 0x10], 1 << 20),
        (XKind::LeanPar16, 1, &[0xBEEF], 1 << 22),
        (XKind::LeanPar8, 2, &[0x12, 0x34], 1 << 20),
        (XKind::LeanPar8, 2, &[0, 0], 1 << 31),
        (XKind::LeanPar8, 3, &[7, 7, 7], 1431655766),
        (XKind::LeanPar16, 1, &[0], u32::MAX),
        (XKind::LeanPar8, 4, &[9, 9, 9, 9], 1 << 30),
    ];
    let spi: &[(XKind, u8, &[u16], u32)] = &[
        (XKind::LeanSpi { buf: 64 }, 2, &[0xAB, 0xCD], 1 << 22),
        (XKind::LeanSpi { buf: 7 }, 3, &[1, 2, 3], 1 << 20),
        (XKind::LeanSpi { buf: 1024 }, 2, &[0xAB, 0xCD], u32::MAX),
        (XKind::LeanSpi { buf: 512 }, 3, &[1, 2, 3], u32::MAX),
        (XKind::LeanSpi { buf: 4096 }, 4, &[1, 2, 3, 4], u32::MAX),
        (XKind::LeanSpi { buf: 4096 }, 1, &[0x77], u32::MAX),
        // pixel capacity of exactly 2^32 / just above: "any buffer length >= one pixel"
        (XKind::LeanSpiBig { bytes: 1 << 33 }, 2, &[0x12, 0x34], 10),
        (XKind::LeanSpiBig { bytes: (1 << 33) + 2 }, 2, &[0x12, 0x34], 10),
        (XKind::LeanSpiBig { bytes: 3 << 32 }, 3, &[1, 2, 3], 7),
    ];
    let (list, quick_n) = if prop == "C07" { (par, 4usize) } else { (spi, 2usize) };
    let n = if thorough { list.len() } else { quick_n };
    if k as usize >= n {
        return None;
    }
    let (kind, nn, pixel, count) = list[k as usize];
    Some(XCase { property: prop.to_string(), seed: k, kind, init_levels: 3, ops: vec![XOp::Repeat { n: nn, pixel: pixel.to_vec(), count }], faults: Vec::new() })
}

pub fn exec_xcase(c: &XCase) -> XOutcome {
    if matches!(c.kind, XKind::LeanPar8 | XKind::LeanPar16 | XKind::LeanSpi { .. } | XKind::LeanSpiBig { .. }) {
        return exec_lean(c);
    }
    let wr = make_world(c);
    let mut out = XOutcome { violation: None, harness_error: None, stats: RunStats::default(), hash: 0, op_llops: Vec::new(), probes: XProbes::default() };
    let buf_len = if let XKind::Spi { buf } = c.kind { buf as usize } else { 0 };
    let mut buf = vec![0x5Au8; buf_len];
    let is_bus = matches!(c.kind, XKind::Bus8 | XKind::Bus16);
    let width: u32 = match c.kind {
        XKind::Par16 | XKind::Bus16 => 16,
        _ => 8,
    };
    {
        let mut iface = match c.kind {
            XKind::Spi { .. } => Iface::Spi(SpiInterface::new(SimSpi { w: wr.clone() }, SimPin::new(&wr, PIN_DC), &mut buf)),
            // bit 2 of init_levels: build the bus through `From` instead of `new`
            XKind::Par8 if c.init_levels & 4 != 0 => Iface::P8(ParallelInterface::new(Generic8BitBus::from(pins8!(&wr)), SimPin::new(&wr, PIN_DC), SimPin::new(&wr, PIN_WR))),
            XKind::Par16 if c.init_levels & 4 != 0 => Iface::P16(ParallelInterface::new(Generic16BitBus::from(pins16!(&wr)), SimPin::new(&wr, PIN_DC), SimPin::new(&wr, PIN_WR))),
            XKind::Bus8 if c.init_levels & 4 != 0 => Iface::B8(Generic8BitBus::from(pins8!(&wr))),
            XKind::Bus16 if c.init_levels & 4 != 0 => Iface::B16(Generic16BitBus::from(pins16!(&wr))),
            XKind::Par8 => Iface::P8(ParallelInterface::new(Generic8BitBus::new(pins8!(&wr)), SimPin::new(&wr, PIN_DC), SimPin::new(&wr, PIN_WR))),
            XKind::Par16 => Iface::P16(ParallelInterface::new(Generic16BitBus::new(pins16!(&wr)), SimPin::new(&wr, PIN_DC), SimPin::new(&wr, PIN_WR))),
            XKind::Bus8 => Iface::B8(Generic8BitBus::new(pins8!(&wr))),
            XKind::Bus16 => Iface::B16(Generic16BitBus::new(pins16!(&wr))),
            _ => unreachable!(),
        };
        let mut skip_until_cmd = false;
        let mut last_failed_value: Option<u16> = None;
        let mut prev_ok_value: Option<u16> = None;
        for (i, op) in c.ops.iter().enumerate() {
            if skip_until_cmd {
                if matches!(op, XOp::Cmd { .. }) {
                    skip_until_cmd = false;
                } else {
                    continue;
                }
            }
            let name = op_name(op);
            let nwords = words_of(op);
            let (start_words, start_llop, fired_before, log_before, tx_before) = {
                let mut w = wr.borrow_mut();
                w.budget = match c.kind {
                    XKind::Spi { buf } => {
                        let n = match op {
                            XOp::Pixels { n, .. } | XOp::Repeat { n, .. } => *n as u64,
                            _ => 1,
                        };
                        // C06 only asks for termination after a bounded number of transactions;
                        // the tight bound floor(b/usable)+1 is C20's business
                        let _ = (buf, n);
                        64 + 4 * nwords
                    }
                    _ => 16 + nwords * (4 + width as u64),
                };
                (w.words.len(), w.llop, w.fired.len(), w.log.len(), w.spi_transactions)
            };
            // probes
            match (op, c.kind) {
                (XOp::Repeat { n, count, pixel }, k) => {
                    if *count == 0 {
                        out.probes.count_zero += 1;
                    }
                    if let XKind::Spi { buf } = k {
                        let cap = buf as u64 / *n as u64;
                        if cap > 0 && *count as u64 % cap == 0 && *count > 0 {
                            out.probes.exact_multiple += 1;
                        }
                        if (*count as u64) < cap {
                            out.probes.count_lt_capacity += 1;
                        }
                        if buf as u64 % *n as u64 != 0 {
                            out.probes.buf_not_multiple += 1;
                        }
                    } else {
                        let same = pixel.iter().all(|w| *w == pixel[0]);
                        if same && *count > 0 {
                            out.probes.fast_path += 1;
                        } else if pixel.len() >= 2 && pixel[..pixel.len() - 1].iter().all(|w| *w == pixel[0]) {
                            out.probes.nearly_same += 1;
                        }
                    }
                }
                (XOp::Pixels { n, data, .. }, XKind::Spi { buf }) => {
                    let cap = buf as u64 / *n as u64;
                    let px = data.len() as u64 / *n as u64;
                    if cap > 0 && px > 0 && px % cap == 0 {
                        out.probes.exact_multiple += 1;
                    }
                    if buf as u64 % *n as u64 != 0 {
                        out.probes.buf_not_multiple += 1;
                    }
                }
                (XOp::SetValue { v }, _) => {
                    if prev_ok_value == Some(*v) {
                        out.probes.cache_hit += 1;
                    }
                    if last_failed_value == Some(*v) {
                        out.probes.retry_same_value += 1;
                    }
                }
                _ => {}
            }
            let res = crate::exec::guarded(|| iface.run(op));
            out.stats.calls += 1;
            let w = wr.borrow();
            out.op_llops.push((start_llop, w.llop));
            let res = match res {
                Err(p) => {
                    match classify_panic(p) {
                        Caught::Harness(s) => out.harness_error = Some(s),
                        Caught::Budget => {
                            out.violation = Some(viol(
                                c,
                                "nontermination",
                                name,
                                i as i64,
                                format!("{:?} did not return within its budget of bus transactions / pin operations ({} transactions so far)", brief(op), w.spi_transactions - tx_before),
                            ))
                        }
                        Caught::Panic(m) => out.violation = Some(viol(c, "panic", name, i as i64, format!("{} in {:?}", m, brief(op)))),
                    }
                    break;
                }
                Ok(r) => r,
            };
            let fault_in_call = w.fired.len() > fired_before;
            let got = &w.words[start_words..];
            let mut exp: Vec<(bool, u16)> = Vec::new();
            if nwords <= 1 << 22 {
                expected_words(op, &mut exp);
            }
            if width == 8 {
                for e in exp.iter_mut() {
                    e.1 &= 0xFF;
                }
            }
            match res {
                Ok(()) => {
                    if fault_in_call {
                        out.violation = Some(viol(c, "error-swallowed", name, i as i64, format!("returned Ok although {:?} failed", &w.fired[fired_before..])));
                        break;
                    }
                    out.stats.checked_calls += 1;
                    if is_bus {
                        if let XOp::SetValue { v } = op {
                            let mut shown: u32 = 0;
                            let mut unknown = false;
                            for b in 0..width {
                                match w.pins[b as usize] {
                                    Level::High => shown |= 1 << b,
                                    Level::Low => {}
                                    Level::Unknown => unknown = true,
                                }
                            }
                            let want = if width == 8 { *v as u32 & 0xFF } else { *v as u32 };
                            if unknown || shown != want {
                                out.violation = Some(viol(
                                    c,
                                    "pins-do-not-show-value",
                                    name,
                                    i as i64,
                                    format!("set_value({:#x}) returned Ok but the data pins show {:#x}{}", want, shown, if unknown { " (some never driven)" } else { "" }),
                                ));
                                break;
                            }
                            if last_failed_value.is_some() {
                                out.probes.rewrite_after_failure += 1;
                            }
                            last_failed_value = None;
                            prev_ok_value = Some(*v);
                        }
                    } else {
                        if !w.stub_faults.is_empty() {
                            out.violation = Some(viol(c, "undriven-pin-sampled", name, i as i64, w.stub_faults[0].clone()));
                            break;
                        }
                        if got != exp.as_slice() {
                            let k = got.iter().zip(exp.iter()).position(|(a, b)| a != b).unwrap_or(got.len().min(exp.len()));
                            out.violation = Some(viol(
                                c,
                                "wrong-words-on-bus",
                                name,
                                i as i64,
                                format!(
                                    "{:?}: {} words delivered, {} expected; first difference at word {}: got {:?}, expected {:?} (dc_high, value)",
                                    brief(op),
                                    got.len(),
                                    exp.len(),
                                    k,
                                    got.get(k),
                                    exp.get(k)
                                ),
                            ));
                            break;
                        }
                    }
                }
                Err(e) => {
                    if !fault_in_call {
                        out.violation = Some(viol(c, "unexpected-error", name, i as i64, format!("{} although no pin or bus operation failed", e)));
                        break;
                    }
                    // identity: the Debug text carries variant and payload
                    let (fault, payload) = w.fired[w.fired.len() - 1];
                    let want_variant = match (c.kind, payload.src) {
                        (XKind::Spi { .. }, crate::world::SRC_SPI) => "Spi(",
                        (_, PIN_DC) => "Dc(",
                        (_, PIN_WR) => "Wr(",
                        (XKind::Par8 | XKind::Par16, s) if s < 16 => "Bus(",
                        _ => "SimErr",
                    };
                    let payload_txt = format!("SimErr {{ src: {}, llop: {} }}", payload.src, payload.llop);
                    if !e.contains(want_variant) || !e.contains(&payload_txt) {
                        out.violation = Some(viol(c, "error-identity", name, i as i64, format!("returned {}, injected {:?} as {:?}", e, fault, payload)));
                        break;
                    }
                    // no further low-level operation in that call
                    let mut failed = false;
                    for ev in &w.log[log_before..] {
                        if matches!(ev.kind, EvKind::PinSet | EvKind::SpiTx) {
                            if failed {
                                out.violation = Some(viol(c, "operation-after-failure", name, i as i64, format!("low-level operation #{} issued after #{} failed", ev.llop, payload.llop)));
                                break;
                            }
                            if !ev.ok {
                                failed = true;
                            }
                        }
                    }
                    if out.violation.is_some() {
                        break;
                    }
                    if !is_bus {
                        // nothing lost, duplicated or reordered: what did arrive is a prefix
                        if got.len() > exp.len() || got != &exp[..got.len()] {
                            out.violation = Some(viol(c, "wrong-words-before-failure", name, i as i64, format!("{:?}: delivered words are not a prefix of the expected ones", brief(op))));
                            break;
                        }
                        skip_until_cmd = true;
                    } else if let XOp::SetValue { v } = op {
                        last_failed_value = Some(*v);
                        prev_ok_value = None;
                    }
                }
            }
        }
    }
    let w = wr.borrow();
    out.stats.llops = w.llop;
    let fs = &w.fault_stats;
    out.stats.faults_fired = [fs.pin_no_effect, fs.pin_with_effect, fs.spi_before, fs.spi_torn, fs.spi_after, fs.trace_fail];
    out.hash = w.hash.0;
    out
}

fn brief(op: &XOp) -> String {
    match op {
        XOp::Pixels { n, data, .. } => format!("send_pixels::<{}>({} pixels)", n, data.len() / *n as usize),
        XOp::Cmd { op, args } => format!("send_command({:#04x}, {} args)", op, args.len()),
        XOp::Repeat { n, pixel, count } => format!("send_repeated_pixel::<{}>({:x?}, {})", n, pixel, count),
        XOp::SetValue { v } => format!("set_value({:#x})", v),
    }
}

// ------------------------------------------------------------------ generators

fn gen_word(rng: &mut Rng, prev: Option<u16>, wide: bool) -> u16 {
    let mask = if wide { 0xFFFF } else { 0xFF };
    let v = match (rng.below(8), prev) {
        (0, Some(p)) => p,
        (1, Some(p)) => p ^ (1 << rng.below(if wide { 16 } else { 8 })),
        (2, _) => 0,
        (3, _) => mask,
        _ => rng.next_u64() as u16,
    };
    v & mask
}

/// how many buffer-fulls a burst spans: mostly a few, sometimes around a power of two
/// (a transport may group its writes), now and then anything up to 64
fn gen_mult(rng: &mut Rng) -> u64 {
    match rng.below(8) {
        0..=3 => 1 + rng.below(5),
        4 | 5 => {
            let p = 1u64 << (2 + rng.below(4));
            p - 1 + rng.below(3)
        }
        _ => 1 + rng.below(64),
    }
}

pub fn gen_xcase(rng: &mut Rng, prop: &str, seed: u64, with_faults: bool, thorough: bool) -> XCase {
    let kind = if prop == "C06" {
        let n_hint = 1 + rng.below(4) as u32;
        let mut buf = match rng.below(6) {
            0 => n_hint,
            1 => n_hint * (1 + rng.below(40) as u32),
            2 => n_hint * (1 + rng.below(40) as u32) + rng.below(n_hint as u64) as u32,
            3 => *rng.pick(&[4u32, 5, 7, 8, 16, 64]),
            4 => *rng.pick(&[100u32, 200, 256, 512]),
            _ => 4 + rng.below(60) as u32,
        };
        if buf < 4 {
            buf = 4; // every N in 1..=4 must fit
        }
        if rng.chance(1, 80) {
            // a full-frame staging buffer (more than 65535 pixels fit)
            buf = *rng.pick(&[131_072u32, 131_074, 153_600, 196_608, 262_144]);
        }
        XKind::Spi { buf }
    } else {
        match rng.below(4) {
            0 => XKind::Par8,
            1 => XKind::Par16,
            2 => XKind::Bus8,
            _ => XKind::Bus16,
        }
    };
    let wide = matches!(kind, XKind::Par16 | XKind::Bus16);
    let mut ops = Vec::new();
    match kind {
        XKind::Bus8 | XKind::Bus16 => {
            let n = 4 + rng.below(24);
            let mut prev: Option<u16> = None;
            for _ in 0..n {
                let v = gen_word(rng, prev, wide);
                ops.push(XOp::SetValue { v });
                prev = Some(v);
            }
        }
        _ if rng.chance(1, 3) => {
            // "stale state" family: one pixel size, a palette of two or three pixel values,
            // small counts - the same value comes back after something else was sent
            let n = 1 + rng.below(4) as u8;
            let mask: u16 = if wide { 0xFFFF } else { 0xFF };
            let pal: Vec<Vec<u16>> = (0..2 + rng.below(2)).map(|_| (0..n).map(|_| rng.next_u64() as u16 & mask).collect()).collect();
            let cap = if let XKind::Spi { buf } = kind { (buf / n as u32).max(1) as u64 } else { 8 };
            ops.push(XOp::Cmd { op: 0x2C, args: vec![] });
            let k = 3 + rng.below(7);
            let mut last_rep: Option<Vec<u16>> = None;
            for _ in 0..k {
                if let (Some(prev), true) = (last_rep.clone(), rng.chance(1, 5)) {
                    // the same byte value at another pixel width: one leading zero word more or less
                    let mut px = prev.clone();
                    if px.len() < 4 && rng.coin() {
                        px.insert(0, 0);
                    } else if px.len() > 1 && px[0] == 0 {
                        px.remove(0);
                    } else if px.len() < 4 {
                        px.insert(0, 0);
                    }
                    let nn = px.len() as u8;
                    let cap2 = if let XKind::Spi { buf } = kind { (buf / nn as u32).max(1) as u64 } else { 8 };
                    ops.push(XOp::Repeat { n: nn, pixel: px.clone(), count: (1 + rng.below(cap2.min(8) + 2)) as u32 });
                    last_rep = Some(px);
                    continue;
                }
                if rng.chance(2, 3) {
                    let count = match rng.below(4) {
                        0 => cap,
                        1 => cap + 1 + rng.below(3),
                        _ => 1 + rng.below(cap.min(8)),
                    } as u32;
                    let px: Vec<u16> = rng.pick(&pal[..]).clone();
                    last_rep = Some(px.clone());
                    ops.push(XOp::Repeat { n, pixel: px, count: count.min(3000) });
                } else {
                    let px = 1 + rng.below(cap.min(8) + 2);
                    let mut data = Vec::new();
                    for _ in 0..px {
                        let p: &Vec<u16> = rng.pick(&pal[..]);
                        data.extend_from_slice(p);
                    }
                    ops.push(XOp::Pixels { n, data, inexact: rng.coin() });
                }
            }
        }
        _ => {
            let n_ops = 1 + rng.below(6);
            let mut prev: Option<u16> = None;
            for _ in 0..n_ops {
                let nargs = match rng.below(5) {
                    0 => 0,
                    1 => 1,
                    2 => 4,
                    3 => 16 + rng.below(5),
                    _ => rng.below(17),
                };
                let args: Vec<u8> = (0..nargs)
                    .map(|_| {
                        let v = gen_word(rng, prev, false);
                        prev = Some(v);
                        v as u8
                    })
                    .collect();
                ops.push(XOp::Cmd { op: rng.next_u64() as u8, args });
                let n = 1 + rng.below(4) as u8;
                let cap = if let XKind::Spi { buf } = kind { (buf / n as u32).max(1) as u64 } else { 16 };
                match rng.below(5) {
                    0 => {}
                    1 | 2 => {
                        let px = match rng.below(7) {
                            0 => 0,
                            1 => 1,
                            2 => cap,
                            3 => cap * gen_mult(rng),
                            4 => cap * gen_mult(rng) + 1,
                            5 => cap.saturating_sub(1),
                            _ => rng.below(3 * cap + 3),
                        }
                        .min(1200);
                        let data: Vec<u16> = (0..px * n as u64)
                            .map(|_| {
                                let v = gen_word(rng, prev, wide);
                                prev = Some(v);
                                v
                            })
                            .collect();
                        ops.push(XOp::Pixels { n, data, inexact: rng.coin() });
                    }
                    _ => {
                        let mut pixel: Vec<u16> = Vec::new();
                        let style = rng.below(4);
                        let base = gen_word(rng, prev, wide);
                        for k in 0..n {
                            let v = match style {
                                0 => base,
                                1 if k + 1 == n => gen_word(rng, Some(base), wide),
                                1 => base,
                                _ => gen_word(rng, prev, wide),
                            };
                            pixel.push(v);
                        }
                        prev = pixel.last().copied();
                        let count = match rng.below(9) {
                            0 => 0,
                            1 => 1,
                            2 => cap.saturating_sub(1),
                            3 => cap,
                            4 => cap + 1,
                            5 => cap * gen_mult(rng),
                            6 => cap * gen_mult(rng) + 1 + rng.below(cap),
                            _ => rng.below(4 * cap + 4),
                        };
                        let mut count = count.min(8000) as u32;
                        if matches!(kind, XKind::Spi { buf } if buf >= 100_000) {
                            count = *rng.pick(&[1u32, 1000, 65_535, 65_536, 65_537, 76_800, 100_000]);
                        }
                        if thorough && matches!(kind, XKind::Spi { buf } if buf >= 256) && rng.chance(1, 50) {
                            count = 100_000 + rng.below(900_000) as u32;
                        }
                        ops.push(XOp::Repeat { n, pixel, count });
                    }
                }
            }
        }
    }
    let mut c = XCase { property: prop.to_string(), seed, kind, init_levels: rng.below(8) as u8, ops, faults: Vec::new() };
    if with_faults {
        // dry run tells how many low-level operations each call performs
        let dry = exec_xcase(&c);
        if dry.violation.is_none() && dry.harness_error.is_none() {
            let busy: Vec<(u64, u64)> = dry.op_llops.iter().copied().filter(|r| r.1 > r.0).collect();
            if !busy.is_empty() {
                let nf = 1 + rng.below(3);
                for _ in 0..nf {
                    let r = *rng.pick(&busy);
                    let llop = r.0 + rng.below(r.1 - r.0);
                    let kind = match c.kind {
                        XKind::Spi { .. } => match rng.below(5) {
                            0 => FaultKind::PinFailNoEffect,
                            1 => FaultKind::PinFailWithEffect,
                            2 => FaultKind::SpiFailBefore,
                            3 => FaultKind::SpiFailTorn(rng.below(1 << 16) as u32),
                            _ => FaultKind::SpiFailAfter,
                        },
                        _ => {
                            if rng.coin() {
                                FaultKind::PinFailNoEffect
                            } else {
                                FaultKind::PinFailWithEffect
                            }
                        }
                    };
                    if !c.faults.iter().any(|f| f.llop == llop) {
                        c.faults.push(Fault { llop, kind });
                    }
                }
                c.faults.sort_by_key(|f| f.llop);
                // bus-level: bias the retry to repeat the failed value (what a stale cache gets wrong)
                if matches!(c.kind, XKind::Bus8 | XKind::Bus16) {
                    for f in c.faults.clone() {
                        if let Some(i) = dry.op_llops.iter().position(|r| f.llop >= r.0 && f.llop < r.1) {
                            if i + 1 < c.ops.len() && rng.chance(2, 3) {
                                let v = c.ops[i].clone();
                                c.ops[i + 1] = v;
                            }
                        }
                    }
                }
            }
        }
    }
    c
}
