//! MIPI-DCS controller model: decodes the bus traffic as a controller would.
//! Written from the DCS user command set as the ILI9341/ST7789/ILI9486 data sheets
//! state it - not from mipidsi's source.

use crate::mem::Mem;

#[derive(Clone, Copy, Debug, PartialEq, Eq)]
pub struct Profile {
    pub w: u16,
    pub h: u16,
    /// RM67162-style command pages: `0xFE p` selects page p, only page 0 is the user set
    pub paged: bool,
}

#[derive(Clone, Debug, PartialEq, Eq)]
pub enum Issue {
    /// CASET/RASET with start > end or end outside the range valid under the current MV
    WindowBad { op: u8, start: u16, end: u16, limit: u32 },
    /// interpreted command completed with the wrong number of parameters
    Arity { op: u8, got: usize, want: usize },
    /// pixel addressed outside the W x H frame memory
    OobWrite { x: u32, y: u32 },
    /// burst ended inside a pixel
    PartialPixel { words: u8 },
    /// pixel format / bus width combination a controller cannot take
    FormatUnsupported { colmod: u8, bus16: bool },
    /// data word with no command open
    OrphanData,
    /// bus activity while the reset line was low
    BusWhileReset,
    /// command word with a non-zero upper byte on a 16 bit bus
    HiByte { word: u16, command: bool },
    /// memory write continue (0x3C) - never part of a well-formed drawing call here
    WriteContinue,
    /// a bulk repeat whose words per pixel do not match the announced pixel format
    BulkFormatMismatch { words: u8, colmod: u8 },
}

#[derive(Clone, Debug, PartialEq, Eq)]
pub enum CtrlEv {
    Cmd { op: u8, page: u8, params: Vec<u8>, t_ns: u64 },
    /// pixel data following a RAMWR
    Burst { pixels: u64, area: u64, window_ok: bool, sc: u16, ec: u16, sp: u16, ep: u16 },
    ResetEdge { high: bool, t_ns: u64 },
}

#[derive(Clone, Debug)]
pub struct Controller {
    pub prof: Profile,
    pub bus16: bool,
    /// what an incomplete parameter list does to the register: true = latch as it arrives
    pub latch_partial: bool,
    pub reset_low: bool,
    pub t_reset_low: Option<u64>,
    pub reset_pulses_ns: Vec<u64>,
    pub sleeping: bool,
    pub display_on: bool,
    pub normal_mode: bool,
    pub idle: bool,
    pub inverted: bool,
    pub madctl: u8,
    pub colmod: u8,
    pub caset: (u16, u16),
    pub raset: (u16, u16),
    pub wp: (u32, u32),
    pub vscrdef: (u16, u16, u16),
    pub vscsad: u16,
    /// 0 off, 1 vertical, 2 both
    pub te: u8,
    pub page: u8,
    pub page_switches: u64,
    pub soft_resets: u64,
    pub sleep_cmd_times: Vec<(u8, u64)>,
    pub madctl_writes: u64,
    cur_op: Option<u8>,
    cur_params: Vec<u8>,
    cur_t: u64,
    cur_interpreted: bool,
    in_ramwr: bool,
    acc: [u16; 3],
    acc_n: u8,
    burst_ev: Option<usize>,
    fmt_reported: bool,
    pub events: Vec<CtrlEv>,
    pub issues: Vec<Issue>,
    pub mem: Mem,
    pub commands_seen: u64,
    pub pixels_seen: u64,
    pub first_cmd: Option<u8>,
    pub state_hash: u64,
}

pub const TAG18: u32 = 1 << 24;

impl Controller {
    pub fn new(prof: Profile, bus16: bool, latch_partial: bool) -> Self {
        let mut c = Controller {
            prof,
            bus16,
            latch_partial,
            reset_low: false,
            t_reset_low: None,
            reset_pulses_ns: Vec::new(),
            sleeping: true,
            display_on: false,
            normal_mode: true,
            idle: false,
            inverted: false,
            madctl: 0,
            colmod: 0x66,
            caset: (0, 0),
            raset: (0, 0),
            wp: (0, 0),
            vscrdef: (0, 0, 0),
            vscsad: 0,
            te: 0,
            page: 0,
            page_switches: 0,
            soft_resets: 0,
            sleep_cmd_times: Vec::new(),
            madctl_writes: 0,
            cur_op: None,
            cur_params: Vec::new(),
            cur_t: 0,
            cur_interpreted: false,
            in_ramwr: false,
            acc: [0; 3],
            acc_n: 0,
            burst_ev: None,
            fmt_reported: false,
            events: Vec::new(),
            issues: Vec::new(),
            mem: Mem::new(prof.w as u32, prof.h as u32),
            commands_seen: 0,
            pixels_seen: 0,
            first_cmd: None,
            state_hash: 0,
        };
        c.registers_to_default();
        c
    }

    fn registers_to_default(&mut self) {
        self.sleeping = true;
        self.display_on = false;
        self.normal_mode = true;
        self.idle = false;
        self.inverted = false;
        self.madctl = 0;
        self.colmod = 0x66;
        self.caset = (0, self.prof.w.wrapping_sub(1));
        self.raset = (0, self.prof.h.wrapping_sub(1));
        self.wp = (0, 0);
        self.vscrdef = (0, self.prof.h, 0);
        self.vscsad = 0;
        self.te = 0;
        self.page = 0;
    }

    fn issue(&mut self, i: Issue) {
        if self.issues.len() < 16 {
            self.issues.push(i);
        }
    }

    #[inline]
    fn mv(&self) -> bool {
        self.madctl & 0x20 != 0
    }

    /// (number of columns, number of pages) under the current address mode
    fn ranges(&self) -> (u32, u32) {
        if self.mv() {
            (self.prof.h as u32, self.prof.w as u32)
        } else {
            (self.prof.w as u32, self.prof.h as u32)
        }
    }

    pub fn reset_line(&mut self, now: u64, high: bool) {
        self.events.push(CtrlEv::ResetEdge { high, t_ns: now });
        if !high {
            if !self.reset_low {
                self.reset_low = true;
                self.t_reset_low = Some(now);
            }
        } else if self.reset_low {
            self.reset_low = false;
            if let Some(t) = self.t_reset_low.take() {
                self.reset_pulses_ns.push(now - t);
            }
            self.finish_cmd();
            self.cur_op = None;
            self.in_ramwr = false;
            self.registers_to_default();
        }
    }

    /// one word as sampled from the bus
    pub fn word(&mut self, now: u64, dc_high: bool, w: u16) {
        if self.reset_low {
            self.issue(Issue::BusWhileReset);
            return;
        }
        if !dc_high {
            self.finish_cmd();
            if w > 0xFF {
                self.issue(Issue::HiByte { word: w, command: true });
            }
            self.start_cmd(now, (w & 0xFF) as u8);
        } else if self.in_ramwr {
            self.pixel_word(w);
        } else if self.cur_op.is_some() {
            if w > 0xFF {
                self.issue(Issue::HiByte { word: w, command: false });
            }
            if self.cur_params.len() < 64 {
                self.cur_params.push((w & 0xFF) as u8);
            }
            if self.latch_partial && self.cur_interpreted {
                self.latch_partial_param();
            }
        } else {
            self.issue(Issue::OrphanData);
        }
    }

    fn start_cmd(&mut self, now: u64, op: u8) {
        self.commands_seen += 1;
        if self.first_cmd.is_none() {
            self.first_cmd = Some(op);
        }
        self.cur_op = Some(op);
        self.cur_params.clear();
        self.cur_t = now;
        self.in_ramwr = false;
        self.cur_interpreted = self.page == 0 || !self.prof.paged;
        if !self.cur_interpreted {
            return;
        }
        // parameterless commands act at once
        match op {
            0x01 => {
                self.soft_resets += 1;
                self.registers_to_default();
            }
            0x10 => {
                self.sleep_cmd_times.push((0x10, now));
                self.sleeping = true;
            }
            0x11 => {
                self.sleep_cmd_times.push((0x11, now));
                self.sleeping = false;
            }
            0x12 => self.normal_mode = false,
            0x13 => self.normal_mode = true,
            0x20 => self.inverted = false,
            0x21 => self.inverted = true,
            0x28 => self.display_on = false,
            0x29 => self.display_on = true,
            0x34 => self.te = 0,
            0x38 => self.idle = false,
            0x39 => self.idle = true,
            0x2C => {
                self.in_ramwr = true;
                self.acc_n = 0;
                self.fmt_reported = false;
                self.wp = (self.caset.0 as u32, self.raset.0 as u32);
                let (cols, pages) = self.ranges();
                let ok = self.caset.0 <= self.caset.1
                    && self.raset.0 <= self.raset.1
                    && (self.caset.1 as u32) < cols
                    && (self.raset.1 as u32) < pages;
                let area = if self.caset.0 <= self.caset.1 && self.raset.0 <= self.raset.1 {
                    (self.caset.1 - self.caset.0 + 1) as u64 * (self.raset.1 - self.raset.0 + 1) as u64
                } else {
                    0
                };
                // the Cmd event is pushed right away so the burst follows it
                self.events.push(CtrlEv::Cmd { op, page: self.page, params: Vec::new(), t_ns: now });
                self.events.push(CtrlEv::Burst {
                    pixels: 0,
                    area,
                    window_ok: ok,
                    sc: self.caset.0,
                    ec: self.caset.1,
                    sp: self.raset.0,
                    ep: self.raset.1,
                });
                self.burst_ev = Some(self.events.len() - 1);
            }
            0x3C => {
                self.issue(Issue::WriteContinue);
            }
            _ => {}
        }
    }

    fn latch_partial_param(&mut self) {
        // registers take bytes as they arrive (one of two documented-as-undefined behaviours)
        let op = self.cur_op.unwrap();
        let p = &self.cur_params;
        match (op, p.len()) {
            (0x2A, 2) => self.caset.0 = u16::from_be_bytes([p[0], p[1]]),
            (0x2B, 2) => self.raset.0 = u16::from_be_bytes([p[0], p[1]]),
            _ => {}
        }
    }

    /// complete the command in flight: arity check, register update, event record
    fn finish_cmd(&mut self) {
        let Some(op) = self.cur_op.take() else { return };
        if op == 0x2C && self.cur_interpreted {
            // close the burst
            if self.acc_n != 0 {
                let n = self.acc_n;
                self.issue(Issue::PartialPixel { words: n });
                self.acc_n = 0;
            }
            self.in_ramwr = false;
            self.burst_ev = None;
            return;
        }
        let params = std::mem::take(&mut self.cur_params);
        let n = params.len();
        if self.cur_interpreted {
            let want: Option<usize> = match op {
                0x00 | 0x01 | 0x10 | 0x11 | 0x12 | 0x13 | 0x20 | 0x21 | 0x28 | 0x29 | 0x34 | 0x38 | 0x39 => Some(0),
                0x2A | 0x2B => Some(4),
                0x33 => Some(6),
                0x35 | 0x36 | 0x3A => Some(1),
                0x37 => Some(2),
                _ => None,
            };
            if let Some(want) = want {
                if n != want {
                    self.issue(Issue::Arity { op, got: n, want });
                }
            }
            let be = |i: usize| u16::from_be_bytes([params[i], params[i + 1]]);
            match op {
                0x2A if n >= 4 => {
                    self.caset = (be(0), be(2));
                    let (cols, _) = self.ranges();
                    if self.caset.0 > self.caset.1 || self.caset.1 as u32 >= cols {
                        self.issue(Issue::WindowBad { op, start: self.caset.0, end: self.caset.1, limit: cols });
                    }
                }
                0x2B if n >= 4 => {
                    self.raset = (be(0), be(2));
                    let (_, pages) = self.ranges();
                    if self.raset.0 > self.raset.1 || self.raset.1 as u32 >= pages {
                        self.issue(Issue::WindowBad { op, start: self.raset.0, end: self.raset.1, limit: pages });
                    }
                }
                0x33 if n >= 6 => self.vscrdef = (be(0), be(2), be(4)),
                0x37 if n >= 2 => self.vscsad = be(0),
                0x35 if n >= 1 => self.te = 1 + (params[0] & 1),
                0x36 if n >= 1 => {
                    self.madctl = params[0];
                    self.madctl_writes += 1;
                }
                0x3A if n >= 1 => self.colmod = params[0],
                0xFE if self.prof.paged && n >= 1 => {
                    self.page = params[0];
                    self.page_switches += 1;
                }
                _ => {}
            }
        } else if op == 0xFE && n >= 1 {
            self.page = params[0];
            self.page_switches += 1;
        }
        self.state_hash = crate::rng::splitmix64(
            self.state_hash
                ^ (self.madctl as u64)
                ^ (self.colmod as u64) << 8
                ^ (self.sleeping as u64) << 16
                ^ (self.display_on as u64) << 17
                ^ (self.inverted as u64) << 18
                ^ (self.caset.0 as u64) << 20
                ^ (self.raset.0 as u64) << 36,
        );
        self.events.push(CtrlEv::Cmd { op, page: self.page, params, t_ns: self.cur_t });
    }

    /// the executor calls this when a driver call returns
    pub fn end_call(&mut self) {
        self.finish_cmd();
    }

    #[inline]
    fn pixel_word(&mut self, w: u16) {
        let fmt = self.colmod & 7;
        match (fmt, self.bus16) {
            (5, true) => self.pixel(w as u32),
            (5, false) => {
                if w > 0xFF {
                    self.issue(Issue::HiByte { word: w, command: false });
                }
                self.acc[self.acc_n as usize] = w & 0xFF;
                self.acc_n += 1;
                if self.acc_n == 2 {
                    self.acc_n = 0;
                    let v = (self.acc[0] as u32) << 8 | self.acc[1] as u32;
                    self.pixel(v);
                }
            }
            (6, false) => {
                self.acc[self.acc_n as usize] = w & 0xFF;
                self.acc_n += 1;
                if self.acc_n == 3 {
                    self.acc_n = 0;
                    let v = ((self.acc[0] as u32) >> 2) << 12 | ((self.acc[1] as u32) >> 2) << 6 | (self.acc[2] as u32) >> 2;
                    self.pixel(v | TAG18);
                }
            }
            _ => {
                if !self.fmt_reported {
                    self.fmt_reported = true;
                    let (colmod, bus16) = (self.colmod, self.bus16);
                    self.issue(Issue::FormatUnsupported { colmod, bus16 });
                }
            }
        }
    }

    /// how many bus words make one pixel in the current format (None = unsupported)
    pub fn words_per_pixel(&self) -> Option<u8> {
        match (self.colmod & 7, self.bus16) {
            (5, true) => Some(1),
            (5, false) => Some(2),
            (6, false) => Some(3),
            _ => None,
        }
    }

    #[inline]
    fn map(&self, col: u32, page: u32) -> (i64, i64) {
        let (mut px, mut py) = if self.mv() { (page as i64, col as i64) } else { (col as i64, page as i64) };
        if self.madctl & 0x40 != 0 {
            px = self.prof.w as i64 - 1 - px;
        }
        if self.madctl & 0x80 != 0 {
            py = self.prof.h as i64 - 1 - py;
        }
        (px, py)
    }

    #[inline]
    fn pixel(&mut self, v: u32) {
        self.pixels_seen += 1;
        if let Some(i) = self.burst_ev {
            if let CtrlEv::Burst { pixels, .. } = &mut self.events[i] {
                *pixels += 1;
            }
        }
        let (col, page) = self.wp;
        let (px, py) = self.map(col, page);
        if px >= 0 && py >= 0 && px < self.prof.w as i64 && py < self.prof.h as i64 {
            self.mem.write(px as u32, py as u32, v);
        } else {
            self.issue(Issue::OobWrite { x: px as u32, y: py as u32 });
        }
        // advance
        let (sc, ec) = (self.caset.0 as u32, self.caset.1 as u32);
        let (sp, ep) = (self.raset.0 as u32, self.raset.1 as u32);
        if col >= ec {
            self.wp.0 = sc;
            self.wp.1 = if page >= ep { sp } else { page + 1 };
        } else {
            self.wp.0 = col + 1;
        }
    }

    /// Bulk form used by the Interface-level stub for `send_repeated_pixel`: `count`
    /// pixels, each made of the bus words `words`.
    pub fn repeat(&mut self, now: u64, words: &[u16], count: u64) {
        let n = words.len() as u64;
        let small = count.saturating_mul(n) <= 1 << 16;
        let wpp = self.words_per_pixel();
        let aligned = self.in_ramwr && self.acc_n == 0 && wpp == Some(words.len() as u8) && !self.reset_low;
        if small || !aligned {
            if !small {
                // cannot be decoded pixel by pixel in reasonable time: record and drop
                let (words, colmod) = (words.len() as u8, self.colmod);
                self.issue(Issue::BulkFormatMismatch { words, colmod });
                return;
            }
            for _ in 0..count {
                for &w in words {
                    self.word(now, true, w);
                }
            }
            return;
        }
        // one pixel value
        let v = match (self.colmod & 7, self.bus16) {
            (5, true) => words[0] as u32,
            (5, false) => ((words[0] & 0xFF) as u32) << 8 | (words[1] & 0xFF) as u32,
            _ => (((words[0] & 0xFF) as u32) >> 2) << 12 | (((words[1] & 0xFF) as u32) >> 2) << 6 | ((words[2] & 0xFF) as u32) >> 2 | TAG18,
        };
        self.pixels_seen += count;
        if let Some(i) = self.burst_ev {
            if let CtrlEv::Burst { pixels, .. } = &mut self.events[i] {
                *pixels += count;
            }
        }
        let (sc, ec) = (self.caset.0 as u32, self.caset.1 as u32);
        let (sp, ep) = (self.raset.0 as u32, self.raset.1 as u32);
        let (cols, pages) = self.ranges();
        if sc > ec || sp > ep || ec >= cols || ep >= pages || self.wp != (sc, sp) {
            // malformed window: fall back to single stepping a bounded prefix so that the
            // issues are recorded, drop the rest
            for _ in 0..count.min(1 << 12) {
                self.pixels_seen -= 1;
                if let Some(i) = self.burst_ev {
                    if let CtrlEv::Burst { pixels, .. } = &mut self.events[i] {
                        *pixels -= 1;
                    }
                }
                self.pixel(v);
            }
            return;
        }
        let cw = (ec - sc + 1) as u64;
        let ch = (ep - sp + 1) as u64;
        let full_rows = count / cw;
        let rest = count % cw;
        if full_rows >= ch {
            self.fill_window_rect(sc, sp, ec, ep, v);
        } else {
            if full_rows > 0 {
                self.fill_window_rect(sc, sp, ec, sp + full_rows as u32 - 1, v);
            }
            if rest > 0 {
                let page = sp + full_rows as u32;
                self.fill_window_rect(sc, page, sc + rest as u32 - 1, page, v);
            }
        }
        let total = count % (cw * ch);
        self.wp = (sc + (total % cw) as u32, sp + (total / cw) as u32);
    }

    fn fill_window_rect(&mut self, c0: u32, p0: u32, c1: u32, p1: u32, v: u32) {
        let (ax, ay) = self.map(c0, p0);
        let (bx, by) = self.map(c1, p1);
        let (x0, x1) = (ax.min(bx), ax.max(bx));
        let (y0, y1) = (ay.min(by), ay.max(by));
        self.mem.fill(x0 as u32, y0 as u32, x1 as u32, y1 as u32, v);
    }

    pub fn take_events(&mut self) -> Vec<CtrlEv> {
        self.burst_ev = None;
        std::mem::take(&mut self.events)
    }
}
