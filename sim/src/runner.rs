//! Batch driver: seeded search over many simulated runs on all cores, aggregation in
//! run-index order (so the worker count cannot change the outcome), minimisation, replay
//! files, known findings, evidence.

use crate::exec::{RunStats, Violation, PROBE_NAMES};
use crate::props::{add_stats, add_xprobes, judge, run_index, runs_for, ReplayCase, RunResult, Tier};
use crate::shrink::minimise;
use crate::xport::XProbes;
use rayon::prelude::*;
use serde::{Deserialize, Serialize};
use serde_json::{json, Value};
use std::collections::BTreeSet;
use std::path::{Path, PathBuf};
use std::time::Instant;

pub const DEFAULT_SEED: u64 = 20260926;

#[derive(Clone, Debug, Serialize, Deserialize)]
pub struct BuildInfo {
    pub batch: bool,
    pub overflow_checks: bool,
    pub label: String,
}

pub fn build_info() -> BuildInfo {
    let batch = cfg!(feature = "batch");
    let oc = cfg!(debug_assertions);
    let mut label = String::from(if batch { "batch" } else { "nobatch" });
    if !oc {
        label.push_str("-wrapping");
    }
    if let Ok(extra) = std::env::var("VERIF_BUILD_TAG") {
        if !extra.is_empty() {
            label.push('-');
            label.push_str(&extra);
        }
    }
    BuildInfo { batch, overflow_checks: oc, label }
}

#[derive(Clone, Debug, Serialize, Deserialize)]
pub struct ReplayFile {
    pub property: String,
    pub violation: Violation,
    pub build: BuildInfo,
    pub verif_seed: u64,
    pub run_index: u64,
    pub minimised: bool,
    pub shrink_executions: u64,
    pub case: ReplayCase,
}

#[derive(Clone, Debug, Deserialize)]
pub struct Finding {
    pub status: String,
    pub property: String,
    #[serde(default)]
    pub class: String,
    #[serde(default)]
    pub call: String,
    #[serde(default)]
    pub detail_contains: String,
    #[serde(default)]
    pub description: String,
}

#[derive(Clone, Debug, Deserialize, Default)]
pub struct Findings {
    #[serde(default)]
    pub findings: Vec<Finding>,
}

pub fn load_findings(path: &Path) -> Findings {
    match std::fs::read_to_string(path) {
        Ok(s) => serde_json::from_str(&s).unwrap_or_else(|e| {
            eprintln!("HARNESS-ERROR: cannot parse {}: {}", path.display(), e);
            std::process::exit(2);
        }),
        Err(_) => Findings::default(),
    }
}

fn matches_known<'a>(f: &'a Findings, v: &Violation) -> Option<&'a Finding> {
    f.findings.iter().find(|k| {
        k.status == "known"
            && k.property == v.property
            && (k.class.is_empty() || k.class == v.class)
            && (k.call.is_empty() || k.call == v.call)
            && (k.detail_contains.is_empty() || v.detail.contains(&k.detail_contains))
    })
}

pub struct CheckArgs {
    pub prop: String,
    pub tier: Tier,
    pub seed: u64,
    pub partial_out: PathBuf,
    pub replay_dir: PathBuf,
    pub findings: PathBuf,
    pub runs_override: Option<u64>,
    pub start_index: u64,
}

fn relevant_probes(prop: &str) -> Vec<&'static str> {
    let madctl = ["madctl_000", "madctl_001", "madctl_010", "madctl_011", "madctl_100", "madctl_101", "madctl_110", "madctl_111"];
    let place = ["offset_under_mx", "offset_under_my", "offset_under_mv", "window_touches_fb_right", "window_touches_fb_bottom"];
    let clip = ["clip_left", "clip_top", "clip_right", "clip_bottom", "clip_multi", "rect_encloses", "rect_disjoint", "rect_zero"];
    let mut v: Vec<&'static str> = Vec::new();
    let mut add = |xs: &[&'static str]| v.extend_from_slice(xs);
    match prop {
        "C01" => {
            add(&madctl);
            add(&place);
            add(&["draw_iter_long_run", "sparse_memory", "stream_short", "vendor_page_used", "sleep_toggled", "restarted", "coord_ge_256"]);
        }
        "C02" => {
            add(&madctl);
            add(&place);
            add(&clip);
            add(&["coord_ge_65536", "coord_negative", "stream_short", "stream_surplus", "sparse_memory"]);
        }
        "C03" => {
            add(&madctl);
            add(&["draw_iter_long_run"]);
        }
        "C04" => {
            add(&madctl);
            add(&clip);
            add(&["stream_short", "stream_surplus"]);
        }
        "C05" => add(&["vendor_page_used"]),
        "C08" => {
            add(&madctl);
            add(&place);
            add(&clip);
            add(&["coord_ge_65536", "coord_negative", "orientation_changed", "restarted", "draw_iter_long_run"]);
        }
        "C09" => add(&["init_rejected"]),
        "C10" => {
            add(&madctl);
            add(&place);
            add(&["orientation_changed", "coord_ge_65536", "clip_right"]);
        }
        "C11" => add(&["init_unsupported", "vendor_page_used", "restarted"]),
        "C12" => {
            add(&madctl);
            add(&["fault_fired", "fault_error_after_effect", "retry_succeeded", "failed_call_not_retried", "orientation_changed", "sleep_toggled", "restarted"]);
        }
        "C13" => add(&["sleep_toggled", "fault_fired", "retry_succeeded", "restarted", "orientation_changed"]),
        "C16" => add(&["scroll_sum_overflow_region"]),
        "C17" => add(&["restarted", "vendor_page_used", "fault_fired"]),
        "C19" => add(&madctl),
        "C20" => add(&["row_flush_capacity", "draw_iter_long_run", "spi_exact_multiple", "spi_count_lt_capacity", "spi_buf_not_multiple", "clip_right"]),
        _ => {}
    }
    v
}

fn truncate_sample(rc: &ReplayCase) -> Value {
    let mut v = serde_json::to_value(rc).unwrap_or(Value::Null);
    fn trunc(v: &mut Value) {
        match v {
            Value::Array(a) => {
                if a.len() > 12 {
                    let n = a.len();
                    a.truncate(12);
                    a.push(Value::String(format!("... {} more", n - 12)));
                }
                for x in a.iter_mut() {
                    trunc(x);
                }
            }
            Value::Object(o) => {
                for (_, x) in o.iter_mut() {
                    trunc(x);
                }
            }
            _ => {}
        }
    }
    trunc(&mut v);
    v
}

pub fn run_check(a: &CheckArgs) -> i32 {
    let t0 = Instant::now();
    let bi = build_info();
    let n = a.runs_override.unwrap_or_else(|| runs_for(&a.prop, a.tier));
    let findings = load_findings(&a.findings);
    let chunk: u64 = 4096;
    let mut evals = 0u64;
    let mut runs = 0u64;
    let mut skipped = 0u64;
    let mut skip_reasons: BTreeSet<String> = BTreeSet::new();
    let mut keys: BTreeSet<u64> = BTreeSet::new();
    let mut stats = RunStats::default();
    let mut xprobes = XProbes::default();
    let mut state_hashes: BTreeSet<u64> = BTreeSet::new();
    let mut samples: Vec<Value> = Vec::new();
    let mut batch_hash: u64 = 0;
    let mut reported: Option<(Violation, PathBuf)> = None;
    let mut known_lines: BTreeSet<String> = BTreeSet::new();
    let mut harness_error: Option<String> = None;
    let mut start = a.start_index;
    let end = a.start_index + n;
    'outer: while start < end {
        let stop = (start + chunk).min(end);
        let results: Vec<RunResult> = (start..stop).into_par_iter().map(|i| run_index(&a.prop, i, a.seed, a.tier)).collect();
        for r in results {
            runs += 1;
            evals += r.evals;
            skipped += r.skipped;
            for s in r.skip_reasons {
                if skip_reasons.len() < 12 {
                    skip_reasons.insert(s);
                }
            }
            for k in r.keys {
                keys.insert(k);
            }
            if r.stats.ctrl_state_hash != 0 && state_hashes.len() < 2_000_000 {
                state_hashes.insert(r.stats.ctrl_state_hash);
            }
            add_stats(&mut stats, &r.stats);
            add_xprobes(&mut xprobes, &r.xprobes);
            batch_hash = crate::rng::splitmix64(batch_hash ^ r.hash ^ r.idx);
            if let Some(s) = r.sample {
                if samples.len() < 3 {
                    samples.push(truncate_sample(&s));
                }
            }
            if let Some(h) = r.harness_error {
                harness_error = Some(format!("run {}: {}", r.idx, h));
                break 'outer;
            }
            if let Some((v, rc)) = r.violation {
                if let Some(k) = matches_known(&findings, &v) {
                    known_lines.insert(format!("KNOWN-FINDING: property={} {}", k.property, if k.description.is_empty() { v.class.clone() } else { k.description.clone() }));
                    continue;
                }
                if reported.is_none() {
                    // minimise, then make sure the minimised file reproduces
                    let sh = minimise(rc.clone(), v.clone(), 2000);
                    let (final_case, final_v, minimised) = {
                        let j = judge(&sh.case);
                        match j.violation {
                            Some(v2) if v2.property == v.property && v2.class == v.class => (sh.case, v2, true),
                            _ => (rc, v.clone(), false),
                        }
                    };
                    let _ = std::fs::create_dir_all(&a.replay_dir);
                    let path = a.replay_dir.join(format!("{}-{}-{}-{}.json", a.prop, bi.label, a.seed, r.idx));
                    let rf = ReplayFile {
                        property: a.prop.clone(),
                        violation: final_v.clone(),
                        build: bi.clone(),
                        verif_seed: a.seed,
                        run_index: r.idx,
                        minimised,
                        shrink_executions: sh.executions,
                        case: final_case,
                    };
                    if let Err(e) = std::fs::write(&path, serde_json::to_string_pretty(&rf).unwrap()) {
                        harness_error = Some(format!("cannot write replay file {}: {}", path.display(), e));
                        break 'outer;
                    }
                    reported = Some((final_v, path));
                }
            }
        }
        if reported.is_some() {
            break;
        }
        start = stop;
    }
    let wall = t0.elapsed().as_secs_f64();
    for l in &known_lines {
        println!("{}", l);
    }
    let probes: serde_json::Map<String, Value> = PROBE_NAMES.iter().enumerate().map(|(i, n)| (n.to_string(), json!(stats.probes[i]))).collect();
    // a probe stuck at zero means the workload must change - but only probes this
    // property's workload is meant to reach are reported
    let relevant = relevant_probes(&a.prop);
    let stuck: Vec<&str> = PROBE_NAMES.iter().enumerate().filter(|(i, n)| stats.probes[*i] == 0 && relevant.contains(n)).map(|(_, n)| *n).collect();
    let partial = json!({
        "property_id": a.prop,
        "build": bi.label,
        "seed": a.seed,
        "runs": runs,
        "evaluations": evals,
        "distinct_nontrivial": keys.len(),
        "skipped_runs": skipped,
        "skip_reasons": skip_reasons.iter().collect::<Vec<_>>(),
        "samples": samples,
        "wall_s": wall,
        "runs_per_hour": if wall > 0.0 { (evals as f64 / wall * 3600.0) as u64 } else { 0 },
        "low_level_operations": stats.llops,
        "driver_calls": stats.calls,
        "checked_calls": stats.checked_calls,
        "simulated_seconds": stats.sim_ns as f64 / 1e9,
        "pixels_decoded_by_controller": stats.pixels_to_ctrl,
        "commands_decoded_by_controller": stats.commands_to_ctrl,
        "distinct_controller_state_hashes": state_hashes.len(),
        "faults_fired": {
            "pin_fail_no_effect": stats.faults_fired[0],
            "pin_fail_with_effect": stats.faults_fired[1],
            "spi_fail_before": stats.faults_fired[2],
            "spi_fail_torn": stats.faults_fired[3],
            "spi_fail_after": stats.faults_fired[4],
            "interface_call_fail": stats.faults_fired[5],
        },
        "probes": probes,
        "probes_at_zero": stuck,
        "transport_probes": {
            "repeat_count_zero": xprobes.count_zero,
            "exact_multiple_of_capacity": xprobes.exact_multiple,
            "count_below_capacity": xprobes.count_lt_capacity,
            "buffer_not_multiple_of_pixel": xprobes.buf_not_multiple,
            "strobe_only_fast_path": xprobes.fast_path,
            "nearly_same_pixel": xprobes.nearly_same,
            "bus_cache_hit": xprobes.cache_hit,
            "full_rewrite_after_failure": xprobes.rewrite_after_failure,
            "retry_repeats_failed_value": xprobes.retry_same_value,
        },
        "batch_hash": format!("{:016x}", batch_hash),
        "violations": if reported.is_some() { 1 } else { 0 },
        "known_findings_seen": known_lines.len(),
        "violation": reported.as_ref().map(|(v, p)| json!({"class": v.class, "call": v.call, "detail": v.detail, "replay": p.to_string_lossy()})),
        "harness_error": harness_error,
    });
    if let Some(dir) = a.partial_out.parent() {
        let _ = std::fs::create_dir_all(dir);
    }
    if let Err(e) = std::fs::write(&a.partial_out, serde_json::to_string_pretty(&partial).unwrap()) {
        eprintln!("HARNESS-ERROR: cannot write {}: {}", a.partial_out.display(), e);
        return 2;
    }
    if let Some(h) = harness_error {
        eprintln!("HARNESS-ERROR: {}", h);
        return 2;
    }
    eprintln!(
        "[{} {}] runs={} executions={} distinct={} skipped={} wall={:.1}s",
        a.prop,
        bi.label,
        runs,
        evals,
        keys.len(),
        skipped,
        wall
    );
    if let Some((v, path)) = reported {
        println!("VIOLATION property={} replay={}", a.prop, path.display());
        eprintln!("  class={} call={} op_index={}", v.class, v.call, v.op_index);
        eprintln!("  {}", v.detail);
        return 1;
    }
    0
}

/// re-run an explicit (minimised) case in this fresh process; exit 1 if it reproduces
pub fn replay(path: &Path) -> i32 {
    let s = match std::fs::read_to_string(path) {
        Ok(s) => s,
        Err(e) => {
            eprintln!("HARNESS-ERROR: cannot read {}: {}", path.display(), e);
            return 2;
        }
    };
    let rf: ReplayFile = match serde_json::from_str(&s) {
        Ok(r) => r,
        Err(e) => {
            eprintln!("HARNESS-ERROR: cannot parse {}: {}", path.display(), e);
            return 2;
        }
    };
    let bi = build_info();
    if bi.batch != rf.build.batch {
        eprintln!("HARNESS-ERROR: replay file was recorded on the `{}` build, this is `{}`", rf.build.label, bi.label);
        return 2;
    }
    let j = judge(&rf.case);
    if let Some(h) = j.harness_error {
        eprintln!("HARNESS-ERROR: {}", h);
        return 2;
    }
    match j.violation {
        Some(v) => {
            let exact = v == rf.violation;
            println!("VIOLATION property={} replay={}", rf.property, path.display());
            eprintln!("  class={} call={} op_index={}", v.class, v.call, v.op_index);
            eprintln!("  {}", v.detail);
            eprintln!("  reproduces recorded violation exactly: {}", exact);
            1
        }
        None => {
            println!("replay: no violation (recorded: {} / {})", rf.violation.class, rf.violation.detail);
            0
        }
    }
}

/// print one line per run index with the hash of its full event log - for the determinism proof
pub fn hashes(prop: &str, tier: Tier, seed: u64, runs: u64, threads: usize) -> i32 {
    let pool = rayon::ThreadPoolBuilder::new().num_threads(threads).build().unwrap();
    let res: Vec<(u64, u64, u64)> = pool.install(|| (0..runs).into_par_iter().map(|i| {
        let r = run_index(prop, i, seed, tier);
        (i, r.hash, r.evals)
    }).collect());
    for (i, h, e) in res {
        println!("{} {} {:016x} {}", prop, i, h, e);
    }
    0
}
