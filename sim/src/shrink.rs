//! Minimisation of a failing case before it is reported: delta debugging on the operation
//! list, per-operation shrinking, fault plan, configuration - a step is accepted only if the
//! same property fails with the same violation class. Bounded number of executions.

use crate::case::*;
use crate::exec::Violation;
use crate::props::{judge, ReplayCase};
use crate::xport::{XCase, XOp};

pub struct Shrunk {
    pub case: ReplayCase,
    pub violation: Violation,
    pub executions: u64,
}

fn same(v: &Violation, w: &Violation) -> bool {
    v.property == w.property && v.class == w.class
}

struct Ctx {
    best: ReplayCase,
    viol: Violation,
    execs: u64,
    limit: u64,
}

impl Ctx {
    fn try_accept(&mut self, cand: ReplayCase) -> bool {
        if self.execs >= self.limit || cand == self.best {
            return false;
        }
        if let ReplayCase::Display(c) = &cand {
            if !crate::gen::program_valid(&c.property, &c.config, &c.program) {
                return false;
            }
        }
        self.execs += 1;
        let j = judge(&cand);
        if j.harness_error.is_some() {
            return false;
        }
        if let Some(v) = j.violation {
            if same(&v, &self.viol) {
                self.best = cand;
                self.viol = v;
                return true;
            }
        }
        false
    }
}

pub fn minimise(case: ReplayCase, viol: Violation, limit: u64) -> Shrunk {
    let mut cx = Ctx { best: case, viol, execs: 0, limit };
    for _round in 0..6 {
        let before = cx.best.clone();
        match cx.best.clone() {
            ReplayCase::Display(c) => shrink_display(&mut cx, c),
            ReplayCase::Xport(c) => shrink_xport(&mut cx, c),
            ReplayCase::Plain(_) => {}
        }
        if cx.best == before || cx.execs >= cx.limit {
            break;
        }
    }
    Shrunk { case: cx.best, violation: cx.viol, executions: cx.execs }
}

fn cur_display(cx: &Ctx) -> Case {
    match &cx.best {
        ReplayCase::Display(c) => c.clone(),
        _ => unreachable!(),
    }
}

fn shrink_display(cx: &mut Ctx, start: Case) {
    // 0. ops after the failing one are irrelevant
    let idx = cx.viol.op_index;
    if idx >= 0 && (idx as usize) + 1 < start.program.len() && start.property != "C10" {
        let mut c = start.clone();
        c.program.truncate(idx as usize + 1);
        cx.try_accept(ReplayCase::Display(c));
    }
    // 1. drop chunks of ops, then single ops
    let mut chunk = (cur_display(cx).program.len() / 2).max(1);
    while chunk >= 1 {
        let mut i = 0;
        loop {
            let c = cur_display(cx);
            if i >= c.program.len() {
                break;
            }
            let mut cand = c.clone();
            let end = (i + chunk).min(cand.program.len());
            cand.program.drain(i..end);
            // fault indices are absolute: dropping ops shifts them; keep the plan only if
            // the case is fault-free, otherwise let the judge decide
            if !cx.try_accept(ReplayCase::Display(cand)) {
                i += chunk;
            }
        }
        if chunk == 1 {
            break;
        }
        chunk /= 2;
    }
    // 2. drop faults
    loop {
        let c = cur_display(cx);
        let mut progressed = false;
        for k in 0..c.faults.len() {
            let mut cand = c.clone();
            cand.faults.remove(k);
            if cx.try_accept(ReplayCase::Display(cand)) {
                progressed = true;
                break;
            }
        }
        if !progressed {
            break;
        }
    }
    // 3. per-op shrinking
    let n_ops = cur_display(cx).program.len();
    for i in 0..n_ops {
        for _pass in 0..12 {
            let c = cur_display(cx);
            if i >= c.program.len() {
                break;
            }
            let mut progressed = false;
            for cand_op in shrink_op(&c.program[i]) {
                let mut cand = c.clone();
                cand.program[i] = cand_op;
                if cx.try_accept(ReplayCase::Display(cand)) {
                    progressed = true;
                    break;
                }
            }
            if !progressed {
                break;
            }
        }
    }
    // 4. configuration, validity-preserving steps only
    let c = cur_display(cx);
    let mut cands: Vec<Config> = Vec::new();
    let mut push = |f: &dyn Fn(&mut Config)| {
        let mut k = c.config.clone();
        f(&mut k);
        if k != c.config {
            cands.push(k);
        }
    };
    push(&|k| k.ox = 0);
    push(&|k| k.oy = 0);
    push(&|k| k.bgr = false);
    push(&|k| k.invert = false);
    push(&|k| k.refresh = 0);
    push(&|k| k.rst = false);
    push(&|k| k.init_levels = 3);
    push(&|k| k.clock_all_methods = true);
    push(&|k| k.latch_partial = false);
    push(&|k| k.by_ref = false);
    push(&|k| k.builder_order = 0);
    push(&|k| k.zst_rst = false);
    push(&|k| k.bus_from = false);
    push(&|k| k.orient.mirrored = false);
    if c.config.w == c.config.h {
        push(&|k| k.orient.rot = 0);
    }
    if c.faults.is_empty() {
        push(&|k| k.transport = Transport::Trace(k.transport.kind()));
    }
    for k in cands {
        let mut cand = cur_display(cx);
        // apply only the differing field(s) of this candidate relative to the original
        if k.ox != c.config.ox {
            cand.config.ox = k.ox;
        }
        if k.oy != c.config.oy {
            cand.config.oy = k.oy;
        }
        if k.bgr != c.config.bgr {
            cand.config.bgr = k.bgr;
        }
        if k.invert != c.config.invert {
            cand.config.invert = k.invert;
        }
        if k.refresh != c.config.refresh {
            cand.config.refresh = k.refresh;
        }
        if k.rst != c.config.rst {
            cand.config.rst = k.rst;
        }
        if k.init_levels != c.config.init_levels {
            cand.config.init_levels = k.init_levels;
        }
        if k.clock_all_methods != c.config.clock_all_methods {
            cand.config.clock_all_methods = k.clock_all_methods;
        }
        if k.latch_partial != c.config.latch_partial {
            cand.config.latch_partial = k.latch_partial;
        }
        if k.by_ref != c.config.by_ref {
            cand.config.by_ref = k.by_ref;
        }
        if k.builder_order != c.config.builder_order {
            cand.config.builder_order = k.builder_order;
        }
        if k.zst_rst != c.config.zst_rst {
            cand.config.zst_rst = k.zst_rst;
        }
        if k.bus_from != c.config.bus_from {
            cand.config.bus_from = k.bus_from;
        }
        if k.orient != c.config.orient {
            cand.config.orient = k.orient;
        }
        if k.transport != c.config.transport {
            cand.config.transport = k.transport;
        }
        cx.try_accept(ReplayCase::Display(cand));
    }
}

fn shrink_colors(c: &Colors) -> Vec<Colors> {
    let mut v = Vec::new();
    match c {
        Colors::List(l) => {
            if l.len() > 1 {
                v.push(Colors::List(l[..l.len() / 2].to_vec()));
                v.push(Colors::List(l[..l.len() - 1].to_vec()));
            }
        }
        Colors::Formula { len, salt } => {
            if *len > 0 {
                v.push(Colors::Formula { len: len / 2, salt: *salt });
                v.push(Colors::Formula { len: len - 1, salt: *salt });
            }
            if *salt != 0 {
                v.push(Colors::Formula { len: *len, salt: 0 });
            }
        }
    }
    v
}

fn toward_zero(v: i32) -> Vec<i32> {
    let mut out = Vec::new();
    if v != 0 {
        out.push(0);
        out.push(v / 2);
        out.push(v - v.signum());
    }
    out
}

fn shrink_op(op: &Op) -> Vec<Op> {
    let mut v = Vec::new();
    match op {
        Op::DrawIter { pixels } => {
            let n = pixels.len();
            if n > 1 {
                v.push(Op::DrawIter { pixels: pixels[..n / 2].to_vec() });
                v.push(Op::DrawIter { pixels: pixels[n / 2..].to_vec() });
                // drop single pixels (bounded)
                for k in (0..n).rev().take(40) {
                    let mut p = pixels.clone();
                    p.remove(k);
                    v.push(Op::DrawIter { pixels: p });
                }
                for k in 0..n.min(40) {
                    let mut p = pixels.clone();
                    p.remove(k);
                    v.push(Op::DrawIter { pixels: p });
                }
            }
            if pixels.iter().any(|p| p.2 != 0) {
                v.push(Op::DrawIter { pixels: pixels.iter().map(|&(x, y, _)| (x, y, 1)).collect() });
            }
        }
        Op::SetPixels { sx, sy, ex, ey, colors } => {
            for c in shrink_colors(colors) {
                v.push(Op::SetPixels { sx: *sx, sy: *sy, ex: *ex, ey: *ey, colors: c });
            }
            if ex > sx {
                v.push(Op::SetPixels { sx: *sx, sy: *sy, ex: *ex - 1, ey: *ey, colors: colors.clone() });
            }
            if ey > sy {
                v.push(Op::SetPixels { sx: *sx, sy: *sy, ex: *ex, ey: *ey - 1, colors: colors.clone() });
            }
        }
        Op::FillContiguous { rect, colors } => {
            for c in shrink_colors(colors) {
                v.push(Op::FillContiguous { rect: *rect, colors: c });
            }
            for r in shrink_rect(rect) {
                v.push(Op::FillContiguous { rect: r, colors: colors.clone() });
            }
        }
        Op::FillSolid { rect, c } => {
            for r in shrink_rect(rect) {
                v.push(Op::FillSolid { rect: r, c: *c });
            }
            if *c != 1 {
                v.push(Op::FillSolid { rect: *rect, c: 1 });
            }
        }
        Op::SetPixel { x, y, c } => {
            if *x > 0 {
                v.push(Op::SetPixel { x: 0, y: *y, c: *c });
            }
            if *y > 0 {
                v.push(Op::SetPixel { x: *x, y: 0, c: *c });
            }
        }
        Op::ScrollRegion { top, bottom } => {
            for t in [0u16, 1, top / 2, top.saturating_sub(1)] {
                if t != *top {
                    v.push(Op::ScrollRegion { top: t, bottom: *bottom });
                }
            }
            for b in [0u16, 1, bottom / 2, bottom.saturating_sub(1)] {
                if b != *bottom {
                    v.push(Op::ScrollRegion { top: *top, bottom: b });
                }
            }
            if *top != 65535 {
                v.push(Op::ScrollRegion { top: 65535, bottom: *bottom });
            }
        }
        Op::ScrollOffset { offset } => {
            if *offset != 0 {
                v.push(Op::ScrollOffset { offset: offset / 2 });
            }
        }
        _ => {}
    }
    v
}

fn shrink_rect(r: &Rect) -> Vec<Rect> {
    let mut v = Vec::new();
    if r.w > 1 {
        v.push(Rect { w: r.w / 2, ..*r });
        v.push(Rect { w: r.w - 1, ..*r });
    }
    if r.h > 1 {
        v.push(Rect { h: r.h / 2, ..*r });
        v.push(Rect { h: r.h - 1, ..*r });
    }
    for x in toward_zero(r.x) {
        v.push(Rect { x, ..*r });
    }
    for y in toward_zero(r.y) {
        v.push(Rect { y, ..*r });
    }
    v
}

fn cur_x(cx: &Ctx) -> XCase {
    match &cx.best {
        ReplayCase::Xport(c) => c.clone(),
        _ => unreachable!(),
    }
}

fn shrink_xport(cx: &mut Ctx, start: XCase) {
    let idx = cx.viol.op_index;
    if idx >= 0 && (idx as usize) + 1 < start.ops.len() {
        let mut c = start.clone();
        c.ops.truncate(idx as usize + 1);
        cx.try_accept(ReplayCase::Xport(c));
    }
    let mut i = 0;
    loop {
        let c = cur_x(cx);
        if i >= c.ops.len() {
            break;
        }
        let mut cand = c.clone();
        cand.ops.remove(i);
        if !cx.try_accept(ReplayCase::Xport(cand)) {
            i += 1;
        }
    }
    loop {
        let c = cur_x(cx);
        let mut progressed = false;
        for k in 0..c.faults.len() {
            let mut cand = c.clone();
            cand.faults.remove(k);
            if cx.try_accept(ReplayCase::Xport(cand)) {
                progressed = true;
                break;
            }
        }
        if !progressed {
            break;
        }
    }
    let n = cur_x(cx).ops.len();
    for i in 0..n {
        for _pass in 0..12 {
            let c = cur_x(cx);
            if i >= c.ops.len() {
                break;
            }
            let mut cands: Vec<XOp> = Vec::new();
            match &c.ops[i] {
                XOp::Cmd { op, args } => {
                    if !args.is_empty() {
                        cands.push(XOp::Cmd { op: *op, args: args[..args.len() / 2].to_vec() });
                        cands.push(XOp::Cmd { op: *op, args: args[..args.len() - 1].to_vec() });
                    }
                }
                XOp::Pixels { n, data, inexact } => {
                    let px = data.len() / *n as usize;
                    if px > 0 {
                        cands.push(XOp::Pixels { n: *n, data: data[..(px / 2) * *n as usize].to_vec(), inexact: *inexact });
                        cands.push(XOp::Pixels { n: *n, data: data[..(px - 1) * *n as usize].to_vec(), inexact: *inexact });
                    }
                    if *inexact {
                        cands.push(XOp::Pixels { n: *n, data: data.clone(), inexact: false });
                    }
                }
                XOp::Repeat { n, pixel, count } => {
                    if *count > 0 {
                        cands.push(XOp::Repeat { n: *n, pixel: pixel.clone(), count: count / 2 });
                        cands.push(XOp::Repeat { n: *n, pixel: pixel.clone(), count: count - 1 });
                    }
                    if *n > 1 {
                        cands.push(XOp::Repeat { n: n - 1, pixel: pixel[..pixel.len() - 1].to_vec(), count: *count });
                    }
                }
                XOp::SetValue { v } => {
                    if *v != 0 {
                        cands.push(XOp::SetValue { v: 0 });
                        cands.push(XOp::SetValue { v: v & (v - 1) });
                    }
                }
            }
            let mut progressed = false;
            for co in cands {
                let mut cand = c.clone();
                cand.ops[i] = co;
                if cx.try_accept(ReplayCase::Xport(cand)) {
                    progressed = true;
                    break;
                }
            }
            if !progressed {
                break;
            }
        }
    }
}
