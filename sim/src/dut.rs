//! The device under test: the real mipidsi `Builder`/`Display` over the real transports
//! over simulated pins, behind one object-safe trait so that generators and oracles are
//! not generic.

use crate::case::{Config, Kind, ModelId, Orient, Rect, Transport};
use crate::world::{SimAbort, SimClock, SimErr, SimPin, SimSpi, WorldRef, ZstPin, PIN_DC, PIN_RST, PIN_WR};
use core::convert::Infallible;
use core::marker::PhantomData;
use embedded_graphics_core::draw_target::DrawTarget;
use embedded_graphics_core::geometry::{Dimensions, OriginDimensions, Point, Size};
use embedded_graphics_core::pixelcolor::{Rgb565, Rgb666, RgbColor};
use embedded_graphics_core::primitives::Rectangle;
use embedded_graphics_core::{Drawable, Pixel};
use embedded_hal::delay::DelayNs;
use embedded_hal::digital::OutputPin;
use mipidsi::dcs::{
    BitsPerPixel, ExitSleepMode, InterfaceExt, PixelFormat, SetAddressMode, SetDisplayOn, SetInvertMode,
    SetPixelFormat,
};
use mipidsi::interface::{
    Generic16BitBus, Generic8BitBus, Interface, InterfaceKind, InterfacePixelFormat, ParallelError,
    ParallelInterface, SpiError, SpiInterface,
};
use mipidsi::models::{self, Model, ModelInitError};
use mipidsi::options::{
    ColorInversion, ColorOrder, HorizontalRefreshOrder, ModelOptions, Orientation, RefreshOrder, Rotation,
    TearingEffect, VerticalRefreshOrder,
};
use mipidsi::{Builder, ConfigurationError, Display, InitError, NoResetPin, TestImage};

#[derive(Clone, Copy, Debug, PartialEq, Eq)]
pub enum ErrSrc {
    Spi,
    Dc,
    Bus,
    Wr,
    Trace,
}

#[derive(Clone, Copy, Debug, PartialEq, Eq)]
pub struct DutErr {
    pub src: ErrSrc,
    pub payload: SimErr,
}

pub type DR = Result<(), DutErr>;

pub trait Classify {
    fn classify(self) -> DutErr;
}
impl Classify for SpiError<SimErr, SimErr> {
    fn classify(self) -> DutErr {
        match self {
            SpiError::Spi(e) => DutErr { src: ErrSrc::Spi, payload: e },
            SpiError::Dc(e) => DutErr { src: ErrSrc::Dc, payload: e },
        }
    }
}
impl Classify for ParallelError<SimErr, SimErr, SimErr> {
    fn classify(self) -> DutErr {
        match self {
            ParallelError::Bus(e) => DutErr { src: ErrSrc::Bus, payload: e },
            ParallelError::Dc(e) => DutErr { src: ErrSrc::Dc, payload: e },
            ParallelError::Wr(e) => DutErr { src: ErrSrc::Wr, payload: e },
        }
    }
}
#[derive(Debug, Clone, Copy)]
pub struct TraceErr(pub SimErr);
impl Classify for TraceErr {
    fn classify(self) -> DutErr {
        DutErr { src: ErrSrc::Trace, payload: self.0 }
    }
}

pub trait RstErr {
    fn to_sim(self) -> SimErr;
}
impl RstErr for SimErr {
    fn to_sim(self) -> SimErr {
        self
    }
}
impl RstErr for Infallible {
    fn to_sim(self) -> SimErr {
        match self {}
    }
}

#[derive(Clone, Copy, Debug, PartialEq, Eq)]
pub enum InitFail {
    Interface(DutErr),
    ResetPin(SimErr),
    UnsupportedInterface,
    InvalidDisplaySize,
    InvalidDisplayOffset,
    /// the pairing does not type-check in mipidsi (Rgb666 on a 16 bit bus)
    NoSuchPairing,
}

pub trait SimColor: RgbColor + Copy {
    fn from_raw(v: u32) -> Self;
    fn to_raw(self) -> u32;
}
impl SimColor for Rgb565 {
    fn from_raw(v: u32) -> Self {
        Rgb565::new(((v >> 11) & 31) as u8, ((v >> 5) & 63) as u8, (v & 31) as u8)
    }
    fn to_raw(self) -> u32 {
        (self.r() as u32) << 11 | (self.g() as u32) << 5 | self.b() as u32
    }
}
impl SimColor for Rgb666 {
    fn from_raw(v: u32) -> Self {
        Rgb666::new(((v >> 12) & 63) as u8, ((v >> 6) & 63) as u8, (v & 63) as u8)
    }
    fn to_raw(self) -> u32 {
        (self.r() as u32) << 12 | (self.g() as u32) << 6 | self.b() as u32
    }
}

pub fn to_orientation(o: Orient) -> Orientation {
    let rotation = match o.rot & 3 {
        0 => Rotation::Deg0,
        1 => Rotation::Deg90,
        2 => Rotation::Deg180,
        _ => Rotation::Deg270,
    };
    let mut r = Orientation::new().rotate(rotation);
    r.mirrored = o.mirrored;
    r.rotation = rotation;
    r
}

pub fn from_orientation(o: Orientation) -> Orient {
    let rot = match o.rotation {
        Rotation::Deg0 => 0,
        Rotation::Deg90 => 1,
        Rotation::Deg180 => 2,
        Rotation::Deg270 => 3,
    };
    Orient { rot, mirrored: o.mirrored }
}

pub trait Dut<'a> {
    /// release everything and initialise again with the options of `cfg` (same model,
    /// transport and reset pin)
    fn reinit(self: Box<Self>, cfg: &Config, clk: &mut SimClock) -> Result<Box<dyn Dut<'a> + 'a>, InitFail>;
    fn set_pixel(&mut self, x: u16, y: u16, c: u32) -> DR;
    fn set_pixels(&mut self, sx: u16, sy: u16, ex: u16, ey: u16, it: &mut dyn Iterator<Item = u32>) -> DR;
    fn draw_iter(&mut self, it: &mut dyn Iterator<Item = (i32, i32, u32)>) -> DR;
    fn fill_contiguous(&mut self, r: Rect, it: &mut dyn Iterator<Item = u32>) -> DR;
    fn fill_solid(&mut self, r: Rect, c: u32) -> DR;
    fn clear(&mut self, c: u32) -> DR;
    fn set_orientation(&mut self, o: Orient) -> DR;
    fn sleep(&mut self, clk: &mut SimClock) -> DR;
    fn wake(&mut self, clk: &mut SimClock) -> DR;
    fn scroll_region(&mut self, top: u16, bottom: u16) -> DR;
    fn scroll_offset(&mut self, o: u16) -> DR;
    fn tearing(&mut self, te: u8) -> DR;
    fn test_image(&mut self) -> DR;
    fn orientation(&self) -> Orient;
    fn size(&self) -> (u32, u32);
    fn bbox(&self) -> (i32, i32, u32, u32);
    fn is_sleeping(&self) -> bool;
}

impl<'a, DI, M, RST> Dut<'a> for Display<DI, M, RST>
where
    DI: Interface + Rebuild + 'a,
    DI::Error: Classify,
    M: Model + 'a,
    M::ColorFormat: InterfacePixelFormat<DI::Word> + SimColor,
    RST: OutputPin + 'a,
    RST::Error: RstErr,
{
    fn reinit(self: Box<Self>, cfg: &Config, clk: &mut SimClock) -> Result<Box<dyn Dut<'a> + 'a>, InitFail> {
        let (di, model, rst) = (*self).release();
        let b = Builder::new(model, di.rebuild());
        match rst {
            Some(r) if cfg.builder_order & 0x8000 != 0 => finish(apply_setters(b.reset_pin(r), cfg).init(clk)),
            Some(r) => finish(apply_setters(b, cfg).reset_pin(r).init(clk)),
            None => finish::<DI, M, NoResetPin>(apply_setters(b, cfg).init(clk)),
        }
    }
    fn set_pixel(&mut self, x: u16, y: u16, c: u32) -> DR {
        Display::set_pixel(self, x, y, M::ColorFormat::from_raw(c)).map_err(Classify::classify)
    }
    fn set_pixels(&mut self, sx: u16, sy: u16, ex: u16, ey: u16, it: &mut dyn Iterator<Item = u32>) -> DR {
        Display::set_pixels(self, sx, sy, ex, ey, it.map(M::ColorFormat::from_raw)).map_err(Classify::classify)
    }
    fn draw_iter(&mut self, it: &mut dyn Iterator<Item = (i32, i32, u32)>) -> DR {
        DrawTarget::draw_iter(self, it.map(|(x, y, c)| Pixel(Point::new(x, y), M::ColorFormat::from_raw(c))))
            .map_err(Classify::classify)
    }
    fn fill_contiguous(&mut self, r: Rect, it: &mut dyn Iterator<Item = u32>) -> DR {
        let rect = Rectangle::new(Point::new(r.x, r.y), Size::new(r.w, r.h));
        DrawTarget::fill_contiguous(self, &rect, MapRaw::<_, M::ColorFormat>(it, PhantomData)).map_err(Classify::classify)
    }
    fn fill_solid(&mut self, r: Rect, c: u32) -> DR {
        let rect = Rectangle::new(Point::new(r.x, r.y), Size::new(r.w, r.h));
        DrawTarget::fill_solid(self, &rect, M::ColorFormat::from_raw(c)).map_err(Classify::classify)
    }
    fn clear(&mut self, c: u32) -> DR {
        DrawTarget::clear(self, M::ColorFormat::from_raw(c)).map_err(Classify::classify)
    }
    fn set_orientation(&mut self, o: Orient) -> DR {
        Display::set_orientation(self, to_orientation(o)).map_err(Classify::classify)
    }
    fn sleep(&mut self, clk: &mut SimClock) -> DR {
        Display::sleep(self, clk).map_err(Classify::classify)
    }
    fn wake(&mut self, clk: &mut SimClock) -> DR {
        Display::wake(self, clk).map_err(Classify::classify)
    }
    fn scroll_region(&mut self, top: u16, bottom: u16) -> DR {
        Display::set_vertical_scroll_region(self, top, bottom).map_err(Classify::classify)
    }
    fn scroll_offset(&mut self, o: u16) -> DR {
        Display::set_vertical_scroll_offset(self, o).map_err(Classify::classify)
    }
    fn tearing(&mut self, te: u8) -> DR {
        let t = match te {
            0 => TearingEffect::Off,
            1 => TearingEffect::Vertical,
            _ => TearingEffect::HorizontalAndVertical,
        };
        Display::set_tearing_effect(self, t).map_err(Classify::classify)
    }
    fn test_image(&mut self) -> DR {
        TestImage::<M::ColorFormat>::new().draw(self).map_err(Classify::classify)
    }
    fn orientation(&self) -> Orient {
        from_orientation(Display::orientation(self))
    }
    fn size(&self) -> (u32, u32) {
        let s = OriginDimensions::size(self);
        (s.width, s.height)
    }
    fn bbox(&self) -> (i32, i32, u32, u32) {
        let b = Dimensions::bounding_box(self);
        (b.top_left.x, b.top_left.y, b.size.width, b.size.height)
    }
    fn is_sleeping(&self) -> bool {
        Display::is_sleeping(self)
    }
}

/// `Iterator::map` would lose the O(1) `nth` of the underlying stream; this keeps it.
struct MapRaw<'a, I: ?Sized, C>(&'a mut I, PhantomData<C>);
impl<'a, I: Iterator<Item = u32> + ?Sized, C: SimColor> Iterator for MapRaw<'a, I, C> {
    type Item = C;
    #[inline]
    fn next(&mut self) -> Option<C> {
        self.0.next().map(C::from_raw)
    }
    #[inline]
    fn nth(&mut self, n: usize) -> Option<C> {
        self.0.nth(n).map(C::from_raw)
    }
    fn size_hint(&self) -> (usize, Option<usize>) {
        self.0.size_hint()
    }
}

// ------------------------------------------------------------ external models

/// An external `Model` implementation written against mipidsi's public API only, with an
/// arbitrary framebuffer size.
pub struct SimModel<const W: u16, const H: u16, C>(PhantomData<C>);

impl<const W: u16, const H: u16, C> SimModel<W, H, C> {
    pub fn new() -> Self {
        SimModel(PhantomData)
    }
}

impl<const W: u16, const H: u16, C: RgbColor> Model for SimModel<W, H, C> {
    type ColorFormat = C;
    const FRAMEBUFFER_SIZE: (u16, u16) = (W, H);

    fn init<DELAY, DI>(
        &mut self,
        di: &mut DI,
        delay: &mut DELAY,
        options: &ModelOptions,
    ) -> Result<SetAddressMode, ModelInitError<DI::Error>>
    where
        DELAY: DelayNs,
        DI: Interface,
    {
        let madctl = SetAddressMode::from(options);
        di.write_command(madctl)?;
        let pf = PixelFormat::with_all(BitsPerPixel::from_rgb_color::<C>());
        di.write_command(SetPixelFormat::new(pf))?;
        di.write_command(SetInvertMode::new(options.invert_colors))?;
        di.write_command(ExitSleepMode)?;
        delay.delay_us(120_000);
        di.write_command(SetDisplayOn)?;
        Ok(madctl)
    }
}

/// External model of a panel that is hard-wired BGR and scanned bottom-to-top.
pub struct SimModelHw<const W: u16, const H: u16>;

impl<const W: u16, const H: u16> Model for SimModelHw<W, H> {
    type ColorFormat = Rgb565;
    const FRAMEBUFFER_SIZE: (u16, u16) = (W, H);

    fn init<DELAY, DI>(
        &mut self,
        di: &mut DI,
        delay: &mut DELAY,
        options: &ModelOptions,
    ) -> Result<SetAddressMode, ModelInitError<DI::Error>>
    where
        DELAY: DelayNs,
        DI: Interface,
    {
        let madctl = SetAddressMode::from(options)
            .with_color_order(ColorOrder::Bgr)
            .with_refresh_order(RefreshOrder::new(VerticalRefreshOrder::BottomToTop, HorizontalRefreshOrder::LeftToRight));
        di.write_command(madctl)?;
        let pf = PixelFormat::with_all(BitsPerPixel::from_rgb_color::<Rgb565>());
        di.write_command(SetPixelFormat::new(pf))?;
        di.write_command(SetInvertMode::new(options.invert_colors))?;
        di.write_command(ExitSleepMode)?;
        delay.delay_us(120_000);
        di.write_command(SetDisplayOn)?;
        Ok(madctl)
    }
}

// ------------------------------------------------------------ Interface-level stub

pub struct KSerial;
pub struct KP8;
pub struct KP16;

/// Recording `Interface` stub: transport stubbed, traffic handed to the same controller
/// model in bulk. One Interface call = one low-level operation (can be made to fail).
pub struct TraceDi<K> {
    w: WorldRef,
    _k: PhantomData<K>,
}

impl<K> TraceDi<K> {
    pub fn new(w: &WorldRef) -> Self {
        TraceDi { w: w.clone(), _k: PhantomData }
    }
}

macro_rules! trace_di {
    ($k:ty, $word:ty, $kind:expr) => {
        impl Interface for TraceDi<$k> {
            type Word = $word;
            type Error = TraceErr;
            const KIND: InterfaceKind = $kind;

            fn send_command(&mut self, command: u8, args: &[u8]) -> Result<(), TraceErr> {
                let mut w = self.w.borrow_mut();
                w.trace_call(0).map_err(TraceErr)?;
                w.deliver(false, command as u16);
                for &a in args {
                    w.deliver(true, a as u16);
                }
                Ok(())
            }

            fn send_pixels<const N: usize>(
                &mut self,
                pixels: impl IntoIterator<Item = [$word; N]>,
            ) -> Result<(), TraceErr> {
                self.w.borrow_mut().trace_call(1).map_err(TraceErr)?;
                for p in pixels {
                    let mut w = self.w.borrow_mut();
                    for word in p {
                        w.deliver(true, word as u16);
                    }
                }
                Ok(())
            }

            fn send_repeated_pixel<const N: usize>(&mut self, pixel: [$word; N], count: u32) -> Result<(), TraceErr> {
                let mut w = self.w.borrow_mut();
                w.trace_call(2).map_err(TraceErr)?;
                let words: Vec<u16> = pixel.iter().map(|&x| x as u16).collect();
                let now = w.now_ns;
                w.hash.u64(count as u64 ^ 0x5555);
                for &x in &words {
                    w.hash.u64(x as u64);
                }
                if w.record_words {
                    // bulk marker so that twin traces stay comparable
                    w.words.push((false, 0xFFFF));
                    w.words.push((true, count as u16));
                    w.words.push((true, (count >> 16) as u16));
                    for &x in &words {
                        w.words.push((true, x));
                    }
                }
                if let Some(c) = w.ctrl.as_mut() {
                    c.repeat(now, &words, count as u64);
                }
                Ok(())
            }
        }
    };
}
trace_di!(KSerial, u8, InterfaceKind::Serial4Line);
trace_di!(KP8, u8, InterfaceKind::Parallel8Bit);
trace_di!(KP16, u16, InterfaceKind::Parallel16Bit);

// ------------------------------------------------------------ factory

/// placeholder while a display is being re-initialised
pub struct DeadDut;
impl<'a> Dut<'a> for DeadDut {
    fn reinit(self: Box<Self>, _: &Config, _: &mut SimClock) -> Result<Box<dyn Dut<'a> + 'a>, InitFail> {
        unreachable!()
    }
    fn set_pixel(&mut self, _: u16, _: u16, _: u32) -> DR {
        unreachable!()
    }
    fn set_pixels(&mut self, _: u16, _: u16, _: u16, _: u16, _: &mut dyn Iterator<Item = u32>) -> DR {
        unreachable!()
    }
    fn draw_iter(&mut self, _: &mut dyn Iterator<Item = (i32, i32, u32)>) -> DR {
        unreachable!()
    }
    fn fill_contiguous(&mut self, _: Rect, _: &mut dyn Iterator<Item = u32>) -> DR {
        unreachable!()
    }
    fn fill_solid(&mut self, _: Rect, _: u32) -> DR {
        unreachable!()
    }
    fn clear(&mut self, _: u32) -> DR {
        unreachable!()
    }
    fn set_orientation(&mut self, _: Orient) -> DR {
        unreachable!()
    }
    fn sleep(&mut self, _: &mut SimClock) -> DR {
        unreachable!()
    }
    fn wake(&mut self, _: &mut SimClock) -> DR {
        unreachable!()
    }
    fn scroll_region(&mut self, _: u16, _: u16) -> DR {
        unreachable!()
    }
    fn scroll_offset(&mut self, _: u16) -> DR {
        unreachable!()
    }
    fn tearing(&mut self, _: u8) -> DR {
        unreachable!()
    }
    fn test_image(&mut self) -> DR {
        unreachable!()
    }
    fn orientation(&self) -> Orient {
        unreachable!()
    }
    fn size(&self) -> (u32, u32) {
        unreachable!()
    }
    fn bbox(&self) -> (i32, i32, u32, u32) {
        unreachable!()
    }
    fn is_sleeping(&self) -> bool {
        unreachable!()
    }
}

/// Take an interface apart as far as its public API allows and put it together again.
pub trait Rebuild {
    fn rebuild(self) -> Self;
}
impl<'b> Rebuild for SpiInterface<'b, SimSpi, SimPin> {
    fn rebuild(self) -> Self {
        // the staging buffer cannot be recovered through the public API: keep the interface
        self
    }
}
impl<K> Rebuild for TraceDi<K> {
    fn rebuild(self) -> Self {
        self
    }
}
impl<'b, K> Rebuild for &'b mut TraceDi<K> {
    fn rebuild(self) -> Self {
        self
    }
}

/// interfaces owned by the executor so that a display can be built on `&mut DI`
pub struct Borrowed {
    pub s: TraceDi<KSerial>,
    pub p8: TraceDi<KP8>,
    pub p16: TraceDi<KP16>,
}
impl Borrowed {
    pub fn new(w: &WorldRef) -> Self {
        Borrowed { s: TraceDi::new(w), p8: TraceDi::new(w), p16: TraceDi::new(w) }
    }
}
type Bus8 = Generic8BitBus<SimPin, SimPin, SimPin, SimPin, SimPin, SimPin, SimPin, SimPin>;
type Bus16 = Generic16BitBus<SimPin, SimPin, SimPin, SimPin, SimPin, SimPin, SimPin, SimPin, SimPin, SimPin, SimPin, SimPin, SimPin, SimPin, SimPin, SimPin>;
impl Rebuild for ParallelInterface<Bus8, SimPin, SimPin> {
    fn rebuild(self) -> Self {
        let (bus, dc, wr) = self.release();
        ParallelInterface::new(Generic8BitBus::new(bus.release()), dc, wr)
    }
}
impl Rebuild for ParallelInterface<Bus16, SimPin, SimPin> {
    fn rebuild(self) -> Self {
        let (bus, dc, wr) = self.release();
        ParallelInterface::new(Generic16BitBus::from(bus.release()), dc, wr)
    }
}

fn finish<'a, DI, M, RST>(r: Result<Display<DI, M, RST>, InitError<DI::Error, RST::Error>>) -> Result<Box<dyn Dut<'a> + 'a>, InitFail>
where
    DI: Interface + Rebuild + 'a,
    DI::Error: Classify,
    M: Model + 'a,
    M::ColorFormat: InterfacePixelFormat<DI::Word> + SimColor,
    RST: OutputPin + 'a,
    RST::Error: RstErr,
{
    match r {
        Ok(d) => Ok(Box::new(d)),
        Err(InitError::Interface(e)) => Err(InitFail::Interface(e.classify())),
        Err(InitError::ResetPin(e)) => Err(InitFail::ResetPin(e.to_sim())),
        Err(InitError::InvalidConfiguration(c)) => Err(match c {
            ConfigurationError::UnsupportedInterface => InitFail::UnsupportedInterface,
            ConfigurationError::InvalidDisplaySize => InitFail::InvalidDisplaySize,
            ConfigurationError::InvalidDisplayOffset => InitFail::InvalidDisplayOffset,
            _ => std::panic::panic_any(SimAbort::Harness("unknown ConfigurationError variant".into())),
        }),
    }
}

fn apply_setters<DI, M, RST>(mut b: Builder<DI, M, RST>, cfg: &Config) -> Builder<DI, M, RST>
where
    DI: Interface,
    M: Model,
    M::ColorFormat: InterfacePixelFormat<DI::Word>,
    RST: OutputPin,
{
    let refresh = RefreshOrder::new(
        if cfg.refresh & 1 != 0 { VerticalRefreshOrder::BottomToTop } else { VerticalRefreshOrder::TopToBottom },
        if cfg.refresh & 2 != 0 { HorizontalRefreshOrder::RightToLeft } else { HorizontalRefreshOrder::LeftToRight },
    );
    // the builder's setters commute: call them in the order this case asks for
    let mut idx: Vec<u8> = (0..6).collect();
    let mut code = (cfg.builder_order & 0x7FFF) as usize;
    let mut order = Vec::new();
    for n in (1..=6usize).rev() {
        let k = code % n;
        code /= n;
        order.push(idx.remove(k));
    }
    for s in order {
        b = match s {
            0 => b.display_size(cfg.w, cfg.h),
            1 => b.display_offset(cfg.ox, cfg.oy),
            2 => b.orientation(to_orientation(cfg.orient)),
            3 => b.color_order(if cfg.bgr { ColorOrder::Bgr } else { ColorOrder::Rgb }),
            4 => b.invert_colors(if cfg.invert { ColorInversion::Inverted } else { ColorInversion::Normal }),
            _ => b.refresh_order(refresh),
        };
    }
    b
}

fn init_with<'a, DI, M>(cfg: &Config, model: M, di: DI, w: &WorldRef, clk: &mut SimClock) -> Result<Box<dyn Dut<'a> + 'a>, InitFail>
where
    DI: Interface + Rebuild + 'a,
    DI::Error: Classify,
    M: Model + 'a,
    M::ColorFormat: InterfacePixelFormat<DI::Word> + SimColor,
{
    let b = Builder::new(model, di);
    if cfg.rst && cfg.zst_rst {
        if cfg.builder_order & 0x8000 != 0 {
            finish(apply_setters(b.reset_pin(ZstPin::<PIN_RST>), cfg).init(clk))
        } else {
            finish(apply_setters(b, cfg).reset_pin(ZstPin::<PIN_RST>).init(clk))
        }
    } else if cfg.rst {
        if cfg.builder_order & 0x8000 != 0 {
            finish(apply_setters(b.reset_pin(SimPin::new(w, PIN_RST)), cfg).init(clk))
        } else {
            finish(apply_setters(b, cfg).reset_pin(SimPin::new(w, PIN_RST)).init(clk))
        }
    } else {
        finish::<DI, M, NoResetPin>(apply_setters(b, cfg).init(clk))
    }
}

fn go_u8<'a, M>(model: M, cfg: &Config, w: &WorldRef, buf: &'a mut [u8], br: &'a mut Borrowed, clk: &mut SimClock) -> Result<Box<dyn Dut<'a> + 'a>, InitFail>
where
    M: Model + 'a,
    M::ColorFormat: InterfacePixelFormat<u8> + SimColor,
{
    match cfg.transport {
        Transport::Trace(Kind::Serial) if cfg.by_ref => init_with(cfg, model, &mut br.s, w, clk),
        Transport::Trace(Kind::P8) if cfg.by_ref => init_with(cfg, model, &mut br.p8, w, clk),
        Transport::Spi { .. } => {
            let di = SpiInterface::new(SimSpi { w: w.clone() }, SimPin::new(w, PIN_DC), buf);
            init_with(cfg, model, di, w, clk)
        }
        Transport::Par8 => {
            let mk = if cfg.bus_from { Generic8BitBus::from } else { Generic8BitBus::new };
            let bus = mk((
                SimPin::new(w, 0),
                SimPin::new(w, 1),
                SimPin::new(w, 2),
                SimPin::new(w, 3),
                SimPin::new(w, 4),
                SimPin::new(w, 5),
                SimPin::new(w, 6),
                SimPin::new(w, 7),
            ));
            let di = ParallelInterface::new(bus, SimPin::new(w, PIN_DC), SimPin::new(w, PIN_WR));
            init_with(cfg, model, di, w, clk)
        }
        Transport::Trace(Kind::Serial) => init_with(cfg, model, TraceDi::<KSerial>::new(w), w, clk),
        Transport::Trace(Kind::P8) => init_with(cfg, model, TraceDi::<KP8>::new(w), w, clk),
        _ => Err(InitFail::NoSuchPairing),
    }
}

fn go_u16<'a, M>(model: M, cfg: &Config, w: &WorldRef, br: &'a mut Borrowed, clk: &mut SimClock) -> Result<Box<dyn Dut<'a> + 'a>, InitFail>
where
    M: Model + 'a,
    M::ColorFormat: InterfacePixelFormat<u16> + SimColor,
{
    match cfg.transport {
        Transport::Trace(Kind::P16) if cfg.by_ref => init_with(cfg, model, &mut br.p16, w, clk),
        Transport::Par16 => {
            let mk = if cfg.bus_from { Generic16BitBus::from } else { Generic16BitBus::new };
            let bus = mk((
                SimPin::new(w, 0),
                SimPin::new(w, 1),
                SimPin::new(w, 2),
                SimPin::new(w, 3),
                SimPin::new(w, 4),
                SimPin::new(w, 5),
                SimPin::new(w, 6),
                SimPin::new(w, 7),
                SimPin::new(w, 8),
                SimPin::new(w, 9),
                SimPin::new(w, 10),
                SimPin::new(w, 11),
                SimPin::new(w, 12),
                SimPin::new(w, 13),
                SimPin::new(w, 14),
                SimPin::new(w, 15),
            ));
            let di = ParallelInterface::new(bus, SimPin::new(w, PIN_DC), SimPin::new(w, PIN_WR));
            init_with(cfg, model, di, w, clk)
        }
        Transport::Trace(Kind::P16) => init_with(cfg, model, TraceDi::<KP16>::new(w), w, clk),
        _ => Err(InitFail::NoSuchPairing),
    }
}

macro_rules! both {
    ($m:expr, $cfg:expr, $w:expr, $buf:expr, $br:expr, $clk:expr) => {
        if $cfg.transport.bus16() {
            go_u16($m, $cfg, $w, $br, $clk)
        } else {
            go_u8($m, $cfg, $w, $buf, $br, $clk)
        }
    };
}
macro_rules! only8 {
    ($m:expr, $cfg:expr, $w:expr, $buf:expr, $br:expr, $clk:expr) => {
        if $cfg.transport.bus16() {
            Err(InitFail::NoSuchPairing)
        } else {
            go_u8($m, $cfg, $w, $buf, $br, $clk)
        }
    };
}

/// Build and initialise the display described by `cfg` on the world `w`.
pub fn build<'a>(cfg: &Config, w: &WorldRef, buf: &'a mut [u8], br: &'a mut Borrowed, clk: &mut SimClock) -> Result<Box<dyn Dut<'a> + 'a>, InitFail> {
    use ModelId::*;
    match cfg.model {
        ILI9341Rgb565 => both!(models::ILI9341Rgb565, cfg, w, buf, br, clk),
        ILI9341Rgb666 => only8!(models::ILI9341Rgb666, cfg, w, buf, br, clk),
        ILI9342CRgb565 => both!(models::ILI9342CRgb565, cfg, w, buf, br, clk),
        ILI9342CRgb666 => only8!(models::ILI9342CRgb666, cfg, w, buf, br, clk),
        ILI9486Rgb565 => both!(models::ILI9486Rgb565, cfg, w, buf, br, clk),
        ILI9486Rgb666 => only8!(models::ILI9486Rgb666, cfg, w, buf, br, clk),
        ILI9488Rgb565 => both!(models::ILI9488Rgb565, cfg, w, buf, br, clk),
        ILI9488Rgb666 => only8!(models::ILI9488Rgb666, cfg, w, buf, br, clk),
        ST7789 => both!(models::ST7789, cfg, w, buf, br, clk),
        ST7735s => both!(models::ST7735s, cfg, w, buf, br, clk),
        ST7796 => both!(models::ST7796, cfg, w, buf, br, clk),
        GC9107 => both!(models::GC9107, cfg, w, buf, br, clk),
        GC9A01 => both!(models::GC9A01, cfg, w, buf, br, clk),
        RM67162 => both!(models::RM67162, cfg, w, buf, br, clk),
        Sim1x1 => both!(SimModel::<1, 1, Rgb565>::new(), cfg, w, buf, br, clk),
        Sim1x65535 => both!(SimModel::<1, 65535, Rgb565>::new(), cfg, w, buf, br, clk),
        Sim65535x1 => both!(SimModel::<65535, 1, Rgb565>::new(), cfg, w, buf, br, clk),
        Sim65535x65535 => both!(SimModel::<65535, 65535, Rgb565>::new(), cfg, w, buf, br, clk),
        Sim255x257 => both!(SimModel::<255, 257, Rgb565>::new(), cfg, w, buf, br, clk),
        Sim37x53 => both!(SimModel::<37, 53, Rgb565>::new(), cfg, w, buf, br, clk),
        Sim46341x46342 => both!(SimModel::<46341, 46342, Rgb565>::new(), cfg, w, buf, br, clk),
        Sim5x3 => both!(SimModel::<5, 3, Rgb565>::new(), cfg, w, buf, br, clk),
        Sim3x5 => both!(SimModel::<3, 5, Rgb565>::new(), cfg, w, buf, br, clk),
        Sim64x48Rgb666 => only8!(SimModel::<64, 48, Rgb666>::new(), cfg, w, buf, br, clk),
        Sim2048x2048 => both!(SimModel::<2048, 2048, Rgb565>::new(), cfg, w, buf, br, clk),
        SimHwBgr48x64 => both!(SimModelHw::<48, 64>, cfg, w, buf, br, clk),
        Sim256x256 => both!(SimModel::<256, 256, Rgb565>::new(), cfg, w, buf, br, clk),
        Sim480x800 => both!(SimModel::<480, 800, Rgb565>::new(), cfg, w, buf, br, clk),
    }
}

/// Does the pairing type-check in mipidsi at all?
pub fn pairing_compiles(model: ModelId, t: Transport) -> bool {
    !(model.rgb666() && t.bus16())
}

/// Today's support matrix (the "stays supported" baseline of C11), from the tree this
/// harness was written against.
pub fn supported_today(model: ModelId, k: Kind) -> bool {
    match (model, k) {
        (ModelId::ILI9486Rgb565, Kind::Serial) => false,
        (ModelId::GC9107, Kind::P16) => false,
        (ModelId::RM67162, Kind::P16) => false,
        _ => true,
    }
}
