//! C19: picture oracles for `TestImage`, on a real `Display` over the simulated
//! controller and on a plain clipping `DrawTarget`.

use crate::case::{Case, Config, Orient};
use crate::ctrl::{Controller, Issue, TAG18};
use crate::exec::Violation;
use crate::mem::{Mem, UNTOUCHED};
use crate::refm::{place, RefModel};
use embedded_graphics_core::draw_target::DrawTarget;
use embedded_graphics_core::geometry::{Dimensions, Point, Size};
use embedded_graphics_core::primitives::Rectangle;
use embedded_graphics_core::pixelcolor::RgbColor;
use embedded_graphics_core::Pixel;

#[derive(Clone, Copy, Debug)]
pub struct Palette {
    pub white: u32,
    pub black: u32,
    pub red: u32,
    pub green: u32,
    pub blue: u32,
}

pub fn palette(rgb666: bool) -> Palette {
    if rgb666 {
        Palette { white: 0x3FFFF | TAG18, black: TAG18, red: (63 << 12) | TAG18, green: (63 << 6) | TAG18, blue: 63 | TAG18 }
    } else {
        Palette { white: 0xFFFF, black: 0, red: 0xF800, green: 0x07E0, blue: 0x001F }
    }
}

/// what the user sees, in the logical orientation `orient`, of the panel window
/// (ox, oy, w, h) of the frame memory `mem`
pub fn logical_picture(mem: &Mem, w: u32, h: u32, ox: u32, oy: u32, orient: Orient) -> (u32, u32, Vec<u32>) {
    let (lw, lh) = if orient.rot % 2 == 0 { (w, h) } else { (h, w) };
    let mut pic = Vec::with_capacity((lw * lh) as usize);
    for y in 0..lh {
        for x in 0..lw {
            let (px, py) = place(w, h, ox, oy, orient, x, y);
            pic.push(mem.read(px, py));
        }
    }
    (lw, lh, pic)
}

/// the seven rotated / mirrored versions; shape-changing ones return swapped dimensions
fn transformed(pic: &[u32], w: u32, h: u32, t: u8) -> (u32, u32, Vec<u32>) {
    // t: 1 rot90, 2 rot180, 3 rot270, 4 mirror, 5 mirror+rot90, 6 mirror+rot180, 7 mirror+rot270
    let at = |x: u32, y: u32| pic[(y * w + x) as usize];
    let mirror = t >= 4;
    let rot = t % 4;
    let (nw, nh) = if rot % 2 == 0 { (w, h) } else { (h, w) };
    let mut out = Vec::with_capacity(pic.len());
    for y in 0..nh {
        for x in 0..nw {
            // inverse of: rotate clockwise by rot, then mirror left-right
            let xm = if mirror { nw - 1 - x } else { x };
            let (sx, sy) = match rot {
                0 => (xm, y),
                1 => (y, h - 1 - xm),
                2 => (w - 1 - xm, h - 1 - y),
                _ => (w - 1 - y, xm),
            };
            out.push(at(sx, sy));
        }
    }
    (nw, nh, out)
}

/// The clauses of C19 that speak about the picture, for targets of at least 32 x 32.
pub fn picture_oracle(pic: &[u32], w: u32, h: u32, pal: Palette) -> Option<(&'static str, String)> {
    if w < 32 || h < 32 {
        return None;
    }
    let at = |x: u32, y: u32| pic[(y * w + x) as usize];
    for y in 0..h {
        for x in 0..w {
            if at(x, y) == UNTOUCHED {
                return Some(("pixel-not-painted", format!("({},{}) of a {}x{} target was never painted", x, y, w, h)));
            }
        }
    }
    for x in 0..w {
        for &y in &[0, h - 1] {
            if at(x, y) != pal.white {
                return Some(("frame-not-white", format!("({},{}) on the outermost row of a {}x{} target is {:#x}", x, y, w, h, at(x, y))));
            }
        }
    }
    for y in 0..h {
        for &x in &[0, w - 1] {
            if at(x, y) != pal.white {
                return Some(("frame-not-white", format!("({},{}) on the outermost column of a {}x{} target is {:#x}", x, y, w, h, at(x, y))));
            }
        }
    }
    // exactly one pixel: the ring just inside must not be white
    for x in 1..w - 1 {
        for &y in &[1, h - 2] {
            if at(x, y) == pal.white {
                return Some(("frame-wider-than-one", format!("({},{}) just inside the frame of a {}x{} target is white", x, y, w, h)));
            }
        }
    }
    for y in 1..h - 1 {
        for &x in &[1, w - 2] {
            if at(x, y) == pal.white {
                return Some(("frame-wider-than-one", format!("({},{}) just inside the frame of a {}x{} target is white", x, y, w, h)));
            }
        }
    }
    // red left of green left of blue on some row
    let mut found = false;
    for y in 0..h {
        let mut stage = 0;
        for x in 0..w {
            let v = at(x, y);
            if stage == 0 && v == pal.red {
                stage = 1;
            } else if stage == 1 && v == pal.green {
                stage = 2;
            } else if stage == 2 && v == pal.blue {
                stage = 3;
                break;
            }
        }
        if stage == 3 {
            found = true;
            break;
        }
    }
    if !found {
        return Some(("no-red-green-blue-order", format!("no row of the {}x{} picture has pure red left of pure green left of pure blue", w, h)));
    }
    for t in 1..8u8 {
        let (nw, nh, tp) = transformed(pic, w, h, t);
        if (nw, nh) == (w, h) && tp == pic {
            return Some(("symmetric-picture", format!("the {}x{} picture equals its transformed version #{}", w, h, t)));
        }
    }
    None
}

pub fn display_oracle(case: &Case, idx: i64, cfg: &Config, rm: &RefModel, c: &Controller, issues: &[Issue]) -> Option<Violation> {
    let v = |class: &str, d: String| {
        Some(Violation { property: case.property.clone(), class: class.to_string(), call: "test_image".into(), op_index: idx, detail: d })
    };
    if let Some(is) = issues.iter().find(|i| matches!(i, Issue::OobWrite { .. } | Issue::WindowBad { .. } | Issue::PartialPixel { .. })) {
        return v("malformed-traffic", format!("{:?}", is));
    }
    if !c.mem.is_dense() && cfg.w as u64 * cfg.h as u64 > (1 << 22) {
        // too large to read back cell by cell
        return None;
    }
    let (lw, lh, pic) = logical_picture(&c.mem, cfg.w as u32, cfg.h as u32, cfg.ox as u32, cfg.oy as u32, rm.orient);
    if let Some((class, d)) = picture_oracle(&pic, lw, lh, palette(cfg.model.rgb666())) {
        return v(class, d);
    }
    // nothing outside the panel window
    None
}

// ------------------------------------------------------------ plain clipping target

/// A draw target that is not a display at all: w x h cells, implements only `draw_iter`
/// and clips there - so TestImage may rely on nothing but the target's clipping.
pub struct PlainTarget<C> {
    /// top-left corner of the bounding box (a draw target need not start at the origin)
    pub ox: i32,
    pub oy: i32,
    pub w: u32,
    pub h: u32,
    pub cells: Vec<u32>,
    pub discarded: u64,
    pub to_raw: fn(C) -> u32,
}

impl<C: RgbColor> Dimensions for PlainTarget<C> {
    fn bounding_box(&self) -> Rectangle {
        Rectangle::new(Point::new(self.ox, self.oy), Size::new(self.w, self.h))
    }
}

impl<C: RgbColor> DrawTarget for PlainTarget<C> {
    type Color = C;
    type Error = core::convert::Infallible;
    fn draw_iter<I>(&mut self, pixels: I) -> Result<(), Self::Error>
    where
        I: IntoIterator<Item = Pixel<C>>,
    {
        for Pixel(p, c) in pixels {
            let x = p.x as i64 - self.ox as i64;
            let y = p.y as i64 - self.oy as i64;
            if x >= 0 && y >= 0 && x < self.w as i64 && y < self.h as i64 {
                self.cells[(y as u32 * self.w + x as u32) as usize] = (self.to_raw)(c);
            } else {
                self.discarded += 1;
            }
        }
        Ok(())
    }
}

pub fn rgb_to_raw24<C: RgbColor>(c: C) -> u32 {
    // normalised to "is it the maximum / zero" per channel, enough for the palette checks
    let ch = |v: u8, max: u8| -> u32 {
        if v == max {
            0xFF
        } else {
            (v as u32 * 254) / (max as u32).max(1)
        }
    };
    ch(c.r(), C::MAX_R) << 16 | ch(c.g(), C::MAX_G) << 8 | ch(c.b(), C::MAX_B)
}

pub const PAL24: Palette = Palette { white: 0xFFFFFF, black: 0, red: 0xFF0000, green: 0x00FF00, blue: 0x0000FF };
