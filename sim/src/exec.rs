//! Executes one display-level case on the simulated world and evaluates the oracles the
//! case's property enables: invariants while the run proceeds, history checks afterwards.

use crate::case::{Case, Colors, Config, Kind, Op, Transport};
use crate::ctrl::{Controller, CtrlEv, Issue, Profile};
use crate::dut::{self, DutErr, ErrSrc, InitFail, DR};
use crate::mem::{first_diff, Mem};
use crate::refm::{madctl_ref, RefModel};
use crate::world::{EvKind, Level, SimAbort, SimClock, World, PIN_DC, PIN_RST, PIN_WR, SRC_SPI, SRC_TRACE};
use std::panic::{catch_unwind, AssertUnwindSafe};

#[derive(Clone, Debug, Default)]
pub struct Oracles {
    pub picture: bool,
    pub result_ok: bool,
    pub size: bool,
    pub no_oob: bool,
    pub framing: bool,
    pub counts: bool,
    pub sleep: bool,
    pub scroll: bool,
    pub init_state: bool,
    pub reset: bool,
    pub reject: bool,
    pub orient: bool,
    pub test_image: bool,
    pub fault_contract: bool,
    pub colmod: bool,
}

impl Oracles {
    /// Is a panic / hang / spurious error of `op` this property's business? Anything else
    /// ends the run as "skipped" so that a defect is reported under the property that
    /// speaks about it, and not under whichever check happened to execute the call.
    pub fn subject(&self, p: &str, op: &Op) -> bool {
        match p {
            "C01" | "C02" | "C03" | "C04" | "C05" | "C19" => op.is_drawing() || matches!(op, Op::Reinit { .. }),
            "C11" | "C17" => matches!(op, Op::Reinit { .. }),
            "C10" => op.is_drawing() || matches!(op, Op::SetOrientation { .. }),
            "C12" => true,
            "C13" => matches!(op, Op::Sleep | Op::Wake | Op::Reinit { .. }),
            "C16" => matches!(op, Op::ScrollRegion { .. } | Op::ScrollOffset { .. }),
            _ => false,
        }
    }

    pub fn for_property(p: &str) -> Oracles {
        let mut o = Oracles::default();
        match p {
            "C01" => {
                o.picture = true;
                o.result_ok = true;
                o.size = true;
            }
            "C02" => {
                o.picture = true;
                o.result_ok = true;
                o.no_oob = true;
            }
            "C03" | "C04" => {
                o.picture = true;
                o.result_ok = true;
            }
            "C05" => {
                o.picture = true;
                o.colmod = true;
                o.result_ok = true;
            }
            "C08" => o.framing = true,
            "C09" => o.reject = true,
            "C10" => {
                o.picture = true;
                o.size = true;
                o.orient = true;
                o.result_ok = true;
                o.no_oob = true;
            }
            "C11" => o.init_state = true,
            "C12" => {
                o.fault_contract = true;
                o.picture = true;
                o.size = true;
                o.orient = true;
            }
            "C13" => o.sleep = true,
            "C16" => o.scroll = true,
            "C17" => o.reset = true,
            "C19" => o.test_image = true,
            "C20" => o.counts = true,
            _ => {}
        }
        o
    }
}

#[derive(Clone, Debug, PartialEq, Eq, serde::Serialize, serde::Deserialize)]
pub struct Violation {
    pub property: String,
    pub class: String,
    pub call: String,
    /// index of the failing op in the program, -1 = init
    pub op_index: i64,
    pub detail: String,
}

pub const PROBE_NAMES: &[&str] = &[
    "madctl_000", "madctl_001", "madctl_010", "madctl_011", "madctl_100", "madctl_101", "madctl_110", "madctl_111",
    "offset_under_mx", "offset_under_my", "offset_under_mv",
    "window_touches_fb_right", "window_touches_fb_bottom",
    "clip_left", "clip_top", "clip_right", "clip_bottom", "clip_multi",
    "rect_encloses", "rect_disjoint", "rect_zero",
    "coord_ge_65536", "coord_negative",
    "row_flush_capacity", "draw_iter_long_run",
    "spi_exact_multiple", "spi_count_lt_capacity", "spi_buf_not_multiple",
    "fault_fired", "fault_error_after_effect", "retry_succeeded",
    "sparse_memory", "vendor_page_used", "orientation_changed", "sleep_toggled", "restarted", "coord_ge_256", "failed_call_not_retried",
    "scroll_sum_overflow_region", "init_unsupported", "init_rejected", "stream_short", "stream_surplus",
];

pub fn probe(name: &str) -> usize {
    PROBE_NAMES.iter().position(|n| *n == name).expect("probe name")
}

#[derive(Clone, Debug)]
pub struct RunStats {
    pub llops: u64,
    pub sim_ns: u64,
    pub calls: u64,
    pub checked_calls: u64,
    pub pixels_to_ctrl: u64,
    pub commands_to_ctrl: u64,
    pub faults_fired: [u64; 6],
    pub probes: Vec<u64>,
    pub ctrl_state_hash: u64,
}

impl Default for RunStats {
    fn default() -> Self {
        RunStats {
            llops: 0,
            sim_ns: 0,
            calls: 0,
            checked_calls: 0,
            pixels_to_ctrl: 0,
            commands_to_ctrl: 0,
            faults_fired: [0; 6],
            probes: vec![0; PROBE_NAMES.len()],
            ctrl_state_hash: 0,
        }
    }
}

#[derive(Clone, Debug, Default)]
pub struct ExecOpt {
    pub keep_mem: bool,
    pub keep_words: bool,
    pub force_log: bool,
}

pub struct Outcome {
    pub violation: Option<Violation>,
    pub harness_error: Option<String>,
    pub skipped: Option<&'static str>,
    pub stats: RunStats,
    pub hash: u64,
    pub mem: Option<Mem>,
    pub words: Option<Vec<(bool, u16)>>,
    /// low-level operation index range [start, end) of init and of each executed op
    pub init_llops: (u64, u64),
    pub op_llops: Vec<(u64, u64)>,
    /// per executed op: number of RAMWR commands (for the twin/counting checks)
    pub op_ramwr: Vec<u32>,
    /// index into `words` at the start of each executed op (only with keep_words)
    pub op_word_idx: Vec<usize>,
    pub final_orient: Option<crate::case::Orient>,
    pub final_size: Option<(u32, u32)>,
}

thread_local! {
    static LAST_PANIC_LOC: std::cell::RefCell<String> = std::cell::RefCell::new(String::new());
    static GUARD_DEPTH: std::cell::Cell<u32> = std::cell::Cell::new(0);
}

/// Panics inside a guarded driver call are caught and classified; anything else is a
/// harness bug and is printed.
pub fn install_quiet_panic_hook() {
    std::panic::set_hook(Box::new(|info| {
        let loc = info.location().map(|l| format!("{}:{}", l.file(), l.line())).unwrap_or_default();
        if GUARD_DEPTH.with(|d| d.get()) == 0 {
            eprintln!("HARNESS-PANIC: {}", info);
        }
        LAST_PANIC_LOC.with(|c| *c.borrow_mut() = loc);
    }));
}

pub fn guarded<R>(f: impl FnOnce() -> R) -> std::thread::Result<R> {
    GUARD_DEPTH.with(|d| d.set(d.get() + 1));
    let r = catch_unwind(AssertUnwindSafe(f));
    GUARD_DEPTH.with(|d| d.set(d.get() - 1));
    r
}

pub enum Caught {
    Budget,
    Harness(String),
    Panic(String),
}

pub fn classify_panic(p: Box<dyn std::any::Any + Send>) -> Caught {
    if let Some(a) = p.downcast_ref::<SimAbort>() {
        return match a {
            SimAbort::Budget => Caught::Budget,
            SimAbort::Harness(s) => Caught::Harness(s.clone()),
        };
    }
    let msg = if let Some(s) = p.downcast_ref::<&str>() {
        s.to_string()
    } else if let Some(s) = p.downcast_ref::<String>() {
        s.clone()
    } else {
        "non-string panic payload".to_string()
    };
    let loc = LAST_PANIC_LOC.with(|c| c.borrow().clone());
    Caught::Panic(format!("{} at {}", msg, loc))
}

/// colour stream handed to the driver: counts pulls, O(1) nth, bounded number of calls
pub struct ColorIter<'a> {
    pub colors: &'a Colors,
    pub space: u32,
    pub pos: u64,
    pub calls: u64,
    pub max_calls: u64,
    /// what `size_hint` reports: 0 exact, 1 the default (0, None), 2 a lower bound of at most
    /// one, 3 an upper bound larger than what will be yielded - all of them legal
    pub hint: u8,
    /// number of calls made after the stream had ended
    pub after_end: u32,
}

/// iterator behaviour (size-hint mode, fused or not) of the streams handed to `op`: a
/// function of the case seed and of the op itself, so that dropping other ops while
/// minimising does not change it
pub fn op_hint(seed: u64, op: &Op) -> u8 {
    let mut h = crate::rng::Fnv::default();
    h.u64(seed >> 8);
    match op {
        Op::DrawIter { pixels } => {
            h.u64(pixels.len() as u64);
            if let Some(p) = pixels.first() {
                h.u64(p.0 as u64 ^ (p.1 as u64) << 32);
            }
        }
        Op::SetPixels { sx, sy, ex, ey, colors } => h.u64(*sx as u64 | (*sy as u64) << 16 | (*ex as u64) << 32 | (*ey as u64) << 48 ^ colors.len()),
        Op::FillContiguous { rect, colors } => h.u64(rect.x as u64 ^ (rect.y as u64) << 32 ^ (rect.w as u64) << 13 ^ (rect.h as u64) << 47 ^ colors.len()),
        _ => {}
    }
    (h.0 >> 24) as u8
}

fn hint_of(mode: u8, remaining: usize) -> (usize, Option<usize>) {
    match mode & 3 {
        0 => (remaining, Some(remaining)),
        1 => (0, None),
        2 => (remaining.min(1), None),
        _ => (0, Some(remaining.saturating_add(5))),
    }
}

impl<'a> Iterator for ColorIter<'a> {
    type Item = u32;
    #[inline]
    fn next(&mut self) -> Option<u32> {
        self.calls += 1;
        if self.calls > self.max_calls {
            std::panic::panic_any(SimAbort::Budget);
        }
        if self.pos < self.colors.len() {
            let v = self.colors.at(self.pos, self.space);
            self.pos += 1;
            Some(v)
        } else if self.hint & 4 != 0 && self.after_end > 0 && self.after_end < 4 {
            // a legal iterator that is not fused: polled again after its first `None` it
            // yields more. Nothing of this belongs to the stream.
            self.after_end += 1;
            Some(0x5A5A_5A5A & (self.space - 1))
        } else {
            self.after_end += 1;
            None
        }
    }
    #[inline]
    fn nth(&mut self, n: usize) -> Option<u32> {
        self.calls += 1;
        if self.calls > self.max_calls {
            std::panic::panic_any(SimAbort::Budget);
        }
        let target = self.pos.saturating_add(n as u64);
        if target < self.colors.len() {
            self.pos = target + 1;
            Some(self.colors.at(target, self.space))
        } else {
            self.pos = self.colors.len();
            self.after_end += 1;
            None
        }
    }
    fn size_hint(&self) -> (usize, Option<usize>) {
        let r = (self.colors.len() - self.pos).min(usize::MAX as u64) as usize;
        hint_of(self.hint, r)
    }
}

struct PixIter<'a> {
    v: &'a [(i32, i32, u32)],
    i: usize,
    calls: u64,
    hint: u8,
    after_end: u32,
}
impl<'a> Iterator for PixIter<'a> {
    type Item = (i32, i32, u32);
    fn next(&mut self) -> Option<Self::Item> {
        self.calls += 1;
        if self.calls > self.v.len() as u64 * 2 + 64 {
            std::panic::panic_any(SimAbort::Budget);
        }
        let r = self.v.get(self.i).copied();
        if r.is_some() {
            self.i += 1;
            return r;
        }
        self.after_end += 1;
        if self.hint & 4 != 0 && self.after_end > 1 && self.after_end < 5 {
            // not fused: polled again after the first `None`, it yields pixels that are not
            // part of the stream (at the origin, which every display has)
            return Some((0, 0, 0x5A5A_5A5A));
        }
        None
    }
    fn size_hint(&self) -> (usize, Option<usize>) {
        hint_of(self.hint, self.v.len() - self.i)
    }
}

pub fn profile_of(cfg: &Config) -> Profile {
    let (w, h) = cfg.model.fb();
    Profile { w, h, paged: cfg.model.paged() }
}

pub fn make_world(cfg: &Config) -> World {
    let ctrl = Controller::new(profile_of(cfg), cfg.transport.bus16(), cfg.latch_partial);
    let mut w = World::new(if cfg.transport.bus16() { 16 } else { 8 }, Some(ctrl));
    w.pins[PIN_DC as usize] = if cfg.init_levels & 1 != 0 { Level::High } else { Level::Low };
    w.pins[PIN_WR as usize] = if cfg.init_levels & 2 != 0 { Level::High } else { Level::Low };
    w.pins[PIN_RST as usize] = if cfg.init_levels & 4 != 0 { Level::High } else { Level::Low };
    w
}

fn viol(case: &Case, class: &str, call: &str, op_index: i64, detail: String) -> Violation {
    Violation { property: case.property.clone(), class: class.to_string(), call: call.to_string(), op_index, detail }
}

fn call_op(d: &mut dyn dut::Dut<'_>, op: &Op, clk: &mut SimClock, space: u32, visible: u64, hint: u8) -> DR {
    match op {
        Op::Reinit { .. } => unreachable!("handled by the executor"),
        Op::SetPixel { x, y, c } => d.set_pixel(*x, *y, *c & (space - 1)),
        Op::SetPixels { sx, sy, ex, ey, colors } => {
            let mut it = ColorIter { colors, space, pos: 0, calls: 0, max_calls: colors.len() * 2 + 4096, hint, after_end: 0 };
            d.set_pixels(*sx, *sy, *ex, *ey, &mut it)
        }
        Op::DrawIter { pixels } => {
            let masked: Vec<(i32, i32, u32)> = pixels.iter().map(|&(x, y, c)| (x, y, c & (space - 1))).collect();
            let mut it = PixIter { v: &masked, i: 0, calls: 0, hint, after_end: 0 };
            d.draw_iter(&mut it)
        }
        Op::FillContiguous { rect, colors } => {
            let area = (rect.w as u64 * rect.h as u64).min(1 << 24);
            let mut it = ColorIter { colors, space, pos: 0, calls: 0, max_calls: 4 * area + 8 * visible + 4096, hint, after_end: 0 };
            d.fill_contiguous(*rect, &mut it)
        }
        Op::FillSolid { rect, c } => d.fill_solid(*rect, *c & (space - 1)),
        Op::Clear { c } => d.clear(*c & (space - 1)),
        Op::SetOrientation { o } => d.set_orientation(*o),
        Op::Sleep => d.sleep(clk),
        Op::Wake => d.wake(clk),
        Op::ScrollRegion { top, bottom } => d.scroll_region(*top, *bottom),
        Op::ScrollOffset { offset } => d.scroll_offset(*offset),
        Op::Tearing { te } => d.tearing(*te),
        Op::TestImage => d.test_image(),
    }
}

fn err_matches_fired(e: &DutErr, w: &World, since: usize) -> bool {
    w.fired[since..].iter().any(|(_, p)| {
        *p == e.payload
            && match e.src {
                ErrSrc::Spi => p.src == SRC_SPI,
                ErrSrc::Dc => p.src == PIN_DC,
                ErrSrc::Wr => p.src == PIN_WR,
                ErrSrc::Bus => p.src < 16,
                ErrSrc::Trace => p.src == SRC_TRACE,
            }
    })
}

/// maximal left-to-right same-row runs of the in-bounds pixels of a stream, each split at `cap`
pub fn runs_split(pixels: &[(i32, i32, u32)], lw: u32, lh: u32, cap: u64) -> (u64, u64) {
    let mut windows = 0u64;
    let mut inb = 0u64;
    let mut run_len = 0u64;
    let mut last: Option<(i32, i32)> = None;
    for &(x, y, _) in pixels {
        if x < 0 || y < 0 || x as i64 >= lw as i64 || y as i64 >= lh as i64 {
            continue;
        }
        inb += 1;
        match last {
            Some((lx, ly)) if ly == y && lx as i64 + 1 == x as i64 => run_len += 1,
            _ => {
                if run_len > 0 {
                    windows += (run_len + cap - 1) / cap;
                }
                run_len = 1;
            }
        }
        last = Some((x, y));
    }
    if run_len > 0 {
        windows += (run_len + cap - 1) / cap;
    }
    (windows, inb)
}

pub fn exec_case(case: &Case, opt: &ExecOpt) -> Outcome {
    let cfg = &case.config;
    let orc = Oracles::for_property(&case.property);
    let mut stats = RunStats::default();
    let mut out = Outcome {
        violation: None,
        harness_error: None,
        skipped: None,
        stats: RunStats::default(),
        hash: 0,
        mem: None,
        words: None,
        init_llops: (0, 0),
        op_llops: Vec::new(),
        op_ramwr: Vec::new(),
        op_word_idx: Vec::new(),
        final_orient: None,
        final_size: None,
    };
    let mut world = make_world(cfg);
    world.log_enabled = opt.force_log || orc.reject || orc.reset || orc.fault_contract || orc.counts || orc.init_state;
    world.record_words = opt.keep_words;
    world.faults = case.faults.clone();
    let wr = world.into_ref();
    crate::world::CURRENT_WORLD.with(|c| *c.borrow_mut() = Some(wr.clone()));
    let buf_len = match cfg.transport {
        Transport::Spi { buf } => buf as usize,
        _ => 0,
    };
    let mut buf = vec![0xA5u8; buf_len];
    let mut borrowed = dut::Borrowed::new(&wr);
    let mut clk = SimClock { w: wr.clone(), all_methods: cfg.clock_all_methods };
    let space = cfg.model.colour_space();
    let fault_free = case.faults.is_empty();
    let (fbw, fbh) = cfg.model.fb();

    // ---------------------------------------------------------------- init
    wr.borrow_mut().budget = 400_000;
    let init_res = {
        let wr2 = wr.clone();
        let bufref: &mut [u8] = &mut buf;
        let brref = &mut borrowed;
        let clkref = &mut clk;
        guarded(move || {
            let b = bufref;
            let c = clkref;
            let r = brref;
            dut::build(cfg, &wr2, b, r, c)
        })
    };
    {
        let mut w = wr.borrow_mut();
        if let Some(c) = w.ctrl.as_mut() {
            c.end_call();
        }
        out.init_llops = (0, w.llop);
    }
    let finish = |mut out: Outcome, stats: RunStats, wr: &crate::world::WorldRef, opt: &ExecOpt| -> Outcome {
        let mut w = wr.borrow_mut();
        let mut stats = stats;
        stats.llops = w.llop;
        stats.sim_ns = w.now_ns;
        let fs = &w.fault_stats;
        stats.faults_fired = [fs.pin_no_effect, fs.pin_with_effect, fs.spi_before, fs.spi_torn, fs.spi_after, fs.trace_fail];
        if fs.pin_no_effect + fs.pin_with_effect + fs.spi_before + fs.spi_torn + fs.spi_after + fs.trace_fail > 0 {
            stats.probes[probe("fault_fired")] += 1;
        }
        if fs.pin_with_effect + fs.spi_after > 0 {
            stats.probes[probe("fault_error_after_effect")] += 1;
        }
        if let Some(c) = w.ctrl.as_ref() {
            stats.pixels_to_ctrl = c.pixels_seen;
            stats.commands_to_ctrl = c.commands_seen;
            stats.ctrl_state_hash = c.state_hash;
            if !c.mem.is_dense() {
                stats.probes[probe("sparse_memory")] += 1;
            }
        }
        out.hash = w.hash.0;
        if opt.keep_mem {
            out.mem = w.ctrl.as_ref().map(|c| c.mem.clone());
        }
        if opt.keep_words {
            out.words = Some(std::mem::take(&mut w.words));
        }
        out.stats = stats;
        out
    };

    let mut dut_box = match init_res {
        Err(p) => {
            match classify_panic(p) {
                Caught::Harness(s) => out.harness_error = Some(s),
                Caught::Budget => {
                    if orc.init_state || orc.reset || orc.reject || orc.fault_contract {
                        out.violation = Some(viol(case, "nontermination", "init", -1, "init exceeded the low-level operation budget".into()));
                    } else {
                        out.skipped = Some("init did not terminate");
                    }
                }
                Caught::Panic(m) => {
                    if orc.init_state || orc.reset || orc.reject || orc.fault_contract {
                        out.violation = Some(viol(case, "panic", "init", -1, m));
                    } else {
                        out.skipped = Some("init panicked");
                    }
                }
            }
            return finish(out, stats, &wr, opt);
        }
        Ok(r) => r,
    };

    // ---- init oracles
    {
        let w = wr.borrow();
        let c = w.ctrl.as_ref().unwrap();
        if c.page_switches != 0 {
            stats.probes[probe("vendor_page_used")] += 1;
        }
        let expect_accept = cfg.fits();
        let kind_supported = dut::supported_today(cfg.model, cfg.transport.kind());
        match &dut_box {
            Err(f) => {
                let f = *f;
                match f {
                    InitFail::InvalidDisplaySize | InitFail::InvalidDisplayOffset => {
                        stats.probes[probe("init_rejected")] += 1;
                        if orc.reject {
                            let (fw, fh) = cfg.model.fb();
                            let size_bad = cfg.w == 0 || cfg.h == 0 || cfg.w > fw || cfg.h > fh;
                            let want = if size_bad { InitFail::InvalidDisplaySize } else { InitFail::InvalidDisplayOffset };
                            if expect_accept {
                                out.violation = Some(viol(case, "rejects-valid-window", "init", -1, format!("{:?} for a window that fits", f)));
                            } else if f != want {
                                out.violation = Some(viol(case, "wrong-error-kind", "init", -1, format!("got {:?}, want {:?}", f, want)));
                            } else if w.llop != 0 || w.now_ns != 0 || w.delays != 0 || !w.log.is_empty() {
                                out.violation = Some(viol(
                                    case,
                                    "hardware-touched-before-reject",
                                    "init",
                                    -1,
                                    format!("{} low-level operations, {} delays before the rejection", w.llop, w.delays),
                                ));
                            }
                        } else if expect_accept {
                            out.skipped = Some("init rejected a window that fits");
                        } else {
                            out.skipped = Some("window does not fit");
                        }
                    }
                    InitFail::UnsupportedInterface => {
                        stats.probes[probe("init_unsupported")] += 1;
                        if orc.reject && !expect_accept {
                            out.violation = Some(viol(case, "wrong-error-kind", "init", -1, "UnsupportedInterface for a window that does not fit".into()));
                        }
                        if orc.init_state {
                            // refused before any model command: nothing but (at most) the software
                            // reset on the bus - the statement does not say whether the refusal
                            // comes before or after the reset
                            let cmds: Vec<u8> = c
                                .events
                                .iter()
                                .filter_map(|e| if let CtrlEv::Cmd { op, .. } = e { Some(*op) } else { None })
                                .collect();
                            let ok = cmds.is_empty() || (!cfg.rst && cmds == [0x01]);
                            if !ok {
                                out.violation = Some(viol(case, "commands-before-refusal", "init", -1, format!("commands seen before UnsupportedInterface: {:02x?}", cmds)));
                            } else if kind_supported {
                                out.violation = Some(viol(
                                    case,
                                    "supported-pairing-refused",
                                    "init",
                                    -1,
                                    format!("{:?} on {:?} is supported today but was refused", cfg.model, cfg.transport.kind()),
                                ));
                            }
                        } else {
                            out.skipped = Some("unsupported interface");
                        }
                    }
                    InitFail::NoSuchPairing => out.harness_error = Some(format!("pairing does not type-check: {:?}", cfg)),
                    InitFail::Interface(e) => {
                        if fault_free {
                            out.violation = Some(viol(case, "unexpected-error", "init", -1, format!("{:?} without any injected fault", e)));
                        } else if orc.fault_contract {
                            if !err_matches_fired(&e, &w, 0) {
                                out.violation = Some(viol(case, "error-identity", "init", -1, format!("returned {:?}, fired {:?}", e, w.fired)));
                            } else if let Some(v) = ops_after_fault(case, &w, 0, "init", -1) {
                                out.violation = Some(v);
                            }
                        } else {
                            out.skipped = Some("init failed under an injected fault");
                        }
                    }
                    InitFail::ResetPin(e) => {
                        if fault_free {
                            out.violation = Some(viol(case, "unexpected-error", "init", -1, format!("ResetPin({:?}) without any injected fault", e)));
                        } else if orc.fault_contract {
                            let ok = w.fired.iter().any(|(_, p)| *p == e && p.src == PIN_RST);
                            if !ok {
                                out.violation = Some(viol(case, "error-identity", "init", -1, format!("returned ResetPin({:?}), fired {:?}", e, w.fired)));
                            } else if let Some(v) = ops_after_fault(case, &w, 0, "init", -1) {
                                out.violation = Some(v);
                            }
                        } else {
                            out.skipped = Some("init failed under an injected fault");
                        }
                    }
                }
            }
            Ok(_) => {
                if !w.fired.is_empty() && orc.fault_contract {
                    out.violation = Some(viol(case, "error-swallowed", "init", -1, format!("init returned Ok although {:?} failed", w.fired)));
                }
                if orc.reject && !expect_accept {
                    out.violation = Some(viol(case, "accepts-invalid-window", "init", -1, format!("init accepted {}x{}+{}+{} on a {}x{} framebuffer", cfg.w, cfg.h, cfg.ox, cfg.oy, fbw, fbh)));
                }
                if orc.reject && expect_accept && w.llop == 0 {
                    out.violation = Some(viol(case, "init-did-nothing", "init", -1, "accepted but no hardware operation".into()));
                }
                if orc.init_state && out.violation.is_none() && w.fired.is_empty() {
                    if cfg.model.builtin() && !kind_supported {
                        out.violation = Some(viol(
                            case,
                            "undrivable-pairing-accepted",
                            "init",
                            -1,
                            format!("{:?} cannot be driven over {:?} but init did not refuse it with UnsupportedInterface", cfg.model, cfg.transport.kind()),
                        ));
                    } else {
                        out.violation = init_state_oracle(case, &w, c);
                    }
                }
            }
        }
        if out.violation.is_none() && !w.stub_faults.is_empty() && dut_box.is_ok() {
            if orc.init_state || orc.reset || orc.fault_contract || orc.picture || orc.framing {
                out.violation = Some(viol(case, "undriven-pin-sampled", "init", -1, w.stub_faults[0].clone()));
            } else {
                out.skipped = Some("init sampled a pin that was never driven");
            }
        }
        if orc.reset && out.violation.is_none() {
            // also when a reset-pin fault was swallowed and init claims success
            if let Ok(_) = &dut_box {
                let bwr = c.issues.iter().any(|i| matches!(i, Issue::BusWhileReset));
                out.violation = reset_oracle(case, cfg, &w, &w.log, c.first_cmd, c.soft_resets, bwr, "init", -1);
            }
        }
    }
    if out.violation.is_some() || out.harness_error.is_some() || out.skipped.is_some() || dut_box.is_err() {
        drop(dut_box);
        return finish(out, stats, &wr, opt);
    }
    let mut dut: Box<dyn dut::Dut<'_> + '_> = match dut_box {
        Ok(d) => d,
        Err(_) => unreachable!(),
    };
    // from here on the configuration can change (Reinit)
    let mut cfg: Config = case.config.clone();

    // madctl / offset probes
    {
        let m = madctl_ref(cfg.madctl_bits().0, cfg.orient, cfg.madctl_bits().1);
        stats.probes[(m >> 5) as usize] += 1;
        if (cfg.ox > 0 || cfg.oy > 0) && m & 0x40 != 0 {
            stats.probes[probe("offset_under_mx")] += 1;
        }
        if (cfg.ox > 0 || cfg.oy > 0) && m & 0x80 != 0 {
            stats.probes[probe("offset_under_my")] += 1;
        }
        if (cfg.ox > 0 || cfg.oy > 0) && m & 0x20 != 0 {
            stats.probes[probe("offset_under_mv")] += 1;
        }
        if cfg.w as u32 + cfg.ox as u32 == fbw as u32 {
            stats.probes[probe("window_touches_fb_right")] += 1;
        }
        if cfg.h as u32 + cfg.oy as u32 == fbh as u32 {
            stats.probes[probe("window_touches_fb_bottom")] += 1;
        }
    }

    let mut rm = RefModel::new(&cfg);
    // the controller issues and events of init are not the business of the per-call oracles
    {
        let mut w = wr.borrow_mut();
        let c = w.ctrl.as_mut().unwrap();
        c.take_events();
        c.issues.clear();
        c.mem.take_dirty();
    }
    if orc.size {
        let (lw, lh) = rm.logical_size();
        if dut.size() != (lw, lh) || dut.bbox() != (0, 0, lw, lh) {
            out.violation = Some(viol(case, "size-mismatch", "init", -1, format!("size {:?} bbox {:?}, expected {}x{}", dut.size(), dut.bbox(), lw, lh)));
            return finish(out, stats, &wr, opt);
        }
    }
    if orc.sleep && dut.is_sleeping() {
        out.violation = Some(viol(case, "sleep-flag", "init", -1, "is_sleeping() is true right after init".into()));
        return finish(out, stats, &wr, opt);
    }

    // ---------------------------------------------------------------- program
    let mut measured_cap: Option<u64> = None;
    let mut outstanding_failure = false;
    // an earlier failed attempt of the current call delivered its command to the controller
    let mut reached_earlier = false;
    let mut i = 0usize;
    let mut retried = false;
    let mut skipped_failed_call = false;
    let mut reinit_fail: Option<InitFail> = None;
    let mut reinit_dead = false;
    while i < case.program.len() {
        let op = &case.program[i];
        let name = op.name();
        if skipped_failed_call {
            // the rest of the program was written for the state the failed call would have
            // produced; keep going only while it is still a legal use of the API
            let (lw, lh) = rm.logical_size();
            let legal = match op {
                Op::SetPixel { x, y, .. } => (*x as u32) < lw && (*y as u32) < lh,
                Op::SetPixels { sx, sy, ex, ey, .. } => sx <= ex && sy <= ey && (*ex as u32) < lw && (*ey as u32) < lh,
                _ => true,
            };
            if !legal {
                break;
            }
        }
        let visible = rm.visible_points(op);
        let fired_before;
        let log_before;
        let start_llop;
        let t_before;
        {
            let mut w = wr.borrow_mut();
            fired_before = w.fired.len();
            log_before = w.log.len();
            out.op_word_idx.push(w.words.len());
            start_llop = w.llop;
            t_before = w.now_ns;
            let px = match op {
                Op::SetPixels { colors, .. } => colors.len().max(visible),
                Op::DrawIter { pixels } => pixels.len() as u64,
                _ => visible,
            };
            w.budget = 4_000 + 400 * px.min(1 << 26);
        }
        stats.calls += 1;
        op_probes(op, &rm, &mut stats);
        let res = if let Op::Reinit { .. } = op {
            // restart: release everything, initialise again with the new options
            let newcfg = cfg.after_reinit(op);
            wr.borrow_mut().budget = 400_000;
            let old = std::mem::replace(&mut dut, Box::new(dut::DeadDut));
            let clkref = &mut clk;
            match guarded(move || old.reinit(&newcfg, clkref)) {
                Err(p) => Err(p),
                Ok(Ok(newdut)) => {
                    dut = newdut;
                    Ok(Ok(()))
                }
                Ok(Err(f)) => {
                    reinit_fail = Some(f);
                    Ok(Ok(()))
                }
            }
        } else {
            guarded(|| call_op(dut.as_mut(), op, &mut clk, space, visible, op_hint(case.seed, op)))
        };
        let (events, issues, dirty) = {
            let mut w = wr.borrow_mut();
            let c = w.ctrl.as_mut().unwrap();
            c.end_call();
            let ev = c.take_events();
            let is = std::mem::take(&mut c.issues);
            let di = c.mem.take_dirty();
            (ev, is, di)
        };
        {
            let w = wr.borrow();
            out.op_llops.push((start_llop, w.llop));
        }
        out.op_ramwr.push(events.iter().filter(|e| matches!(e, CtrlEv::Cmd { op: 0x2C, .. })).count() as u32);
        let res = match res {
            Err(p) => {
                let subject = orc.subject(&case.property, op);
                match classify_panic(p) {
                    Caught::Harness(s) => out.harness_error = Some(s),
                    _ if !subject => out.skipped = Some("a call that is not this property's subject panicked or hung"),
                    Caught::Budget => out.violation = Some(viol(case, "nontermination", name, i as i64, format!("{} exceeded its budget of low-level operations / stream pulls", short_op(op)))),
                    Caught::Panic(m) => out.violation = Some(viol(case, "panic", name, i as i64, format!("{} in {}", m, short_op(op)))),
                }
                break;
            }
            Ok(r) => r,
        };
        let fired_now = wr.borrow().fired.len();
        let fault_in_call = fired_now > fired_before;
        if let Some(f) = reinit_fail.take() {
            // the display object is gone; judge the failure and end the run
            let w = wr.borrow();
            match f {
                InitFail::Interface(e) if fault_in_call => {
                    if orc.fault_contract {
                        if !err_matches_fired(&e, &w, fired_before) {
                            out.violation = Some(viol(case, "error-identity", name, i as i64, format!("returned {:?}, fired {:?}", e, &w.fired[fired_before..])));
                        } else if let Some(v) = ops_after_fault(case, &w, log_before, name, i as i64) {
                            out.violation = Some(v);
                        }
                    }
                }
                InitFail::ResetPin(e) if fault_in_call => {
                    if orc.fault_contract && !w.fired[fired_before..].iter().any(|(_, p)| *p == e && p.src == PIN_RST) {
                        out.violation = Some(viol(case, "error-identity", name, i as i64, format!("returned ResetPin({:?}), fired {:?}", e, &w.fired[fired_before..])));
                    }
                }
                InitFail::InvalidDisplaySize | InitFail::InvalidDisplayOffset | InitFail::UnsupportedInterface => {
                    // which windows / pairings init accepts is the statement of C09 / C11, and
                    // their checks judge it on first initialisations; here the run just ends
                    out.skipped = Some("re-initialisation was refused");
                }
                other => {
                    if orc.subject(&case.property, op) {
                        out.violation = Some(viol(case, "reinit-failed", name, i as i64, format!("re-initialisation failed without any injected fault: {:?}", other)));
                    } else {
                        out.skipped = Some("re-initialisation failed");
                    }
                }
            }
            reinit_dead = true;
            break;
        }
        if let Op::Reinit { .. } = op {
            if res == Ok(()) {
                cfg = cfg.after_reinit(op);
            }
        }
        match res {
            Ok(()) => {
                if fault_in_call && orc.fault_contract {
                    out.violation = Some(viol(case, "error-swallowed", name, i as i64, format!("returned Ok although {:?} failed", &wr.borrow().fired[fired_before..])));
                    break;
                }
                if fault_in_call {
                    // an error was swallowed: not this property's business, but the picture
                    // oracle below would misattribute; stop the run here
                    out.skipped = Some("error swallowed in a non-C12 check");
                    break;
                }
                if retried {
                    stats.probes[probe("retry_succeeded")] += 1;
                    retried = false;
                }
                outstanding_failure = false;
                reached_earlier = false;
            }
            Err(e) => {
                if !fault_in_call {
                    if (orc.result_ok || orc.fault_contract || orc.no_oob) && orc.subject(&case.property, op) {
                        out.violation = Some(viol(case, "unexpected-error", name, i as i64, format!("{:?} although no pin or bus operation failed", e)));
                    } else {
                        out.skipped = Some("call failed without a fault");
                    }
                    break;
                }
                if orc.fault_contract {
                    let w = wr.borrow();
                    if !err_matches_fired(&e, &w, fired_before) {
                        out.violation = Some(viol(case, "error-identity", name, i as i64, format!("returned {:?}, fired {:?}", e, &w.fired[fired_before..])));
                        break;
                    }
                    if let Some(v) = ops_after_fault(case, &w, log_before, name, i as i64) {
                        out.violation = Some(v);
                        break;
                    }
                }
                // narrow relaxation: cells the call may touch hold old or new, never garbage
                if op.is_drawing() {
                    if orc.picture {
                        let w = wr.borrow();
                        let c = w.ctrl.as_ref().unwrap();
                        if c.mem.is_dense() && !matches!(op, Op::TestImage) {
                            // (the reference has no model of the test image's pixels: a failed
                            // TestImage is judged on the error contract only, then resynchronised)
                            // every value the op writes to a cell, in order: after a failure a cell the
                            // call may touch holds its old value or one of those - never garbage
                            let old = rm.exp.clone();
                            rm.exp.journal = Some(Vec::new());
                            rm.apply(op);
                            rm.exp.take_dirty();
                            let mut journal = rm.exp.journal.take().unwrap_or_default();
                            journal.sort_unstable();
                            for &idx in &dirty {
                                let (x, y) = (idx % c.mem.w, idx / c.mem.w);
                                let v = c.mem.read(x, y);
                                if v != old.read(x, y) && journal.binary_search(&(idx, v)).is_err() {
                                    out.violation = Some(viol(case, "garbage-after-fault", name, i as i64, format!("cell ({},{}) holds {:#x}: neither its old value {} nor any value {} writes there", x, y, v, cellfmt(old.read(x, y)), short_op(op))));
                                    break;
                                }
                            }
                            if out.violation.is_some() {
                                break;
                            }
                        }
                        rm.exp = c.mem.clone();
                        rm.exp.take_dirty();
                    }
                    i += 1;
                    continue;
                } else {
                    // non-drawing call: the client retries once faults allow
                    if matches!(op, Op::Sleep | Op::Wake) && (orc.sleep || orc.fault_contract) && dut.is_sleeping() != rm.sleeping {
                        out.violation = Some(viol(case, "sleep-flag-after-failed-call", name, i as i64, format!("is_sleeping() = {} after a failed {}", dut.is_sleeping(), name)));
                        break;
                    }
                    // Did the command reach the controller before the error was reported?
                    let reached = events.iter().any(|e| match (op, e) {
                        (Op::SetOrientation { .. }, CtrlEv::Cmd { op: 0x36, params, .. }) => !params.is_empty(),
                        (Op::Sleep, CtrlEv::Cmd { op: 0x10, .. }) | (Op::Wake, CtrlEv::Cmd { op: 0x11, .. }) => true,
                        (Op::ScrollRegion { .. }, CtrlEv::Cmd { op: 0x33, .. }) | (Op::ScrollOffset { .. }, CtrlEv::Cmd { op: 0x37, .. }) => true,
                        (Op::Tearing { .. }, CtrlEv::Cmd { op: 0x34 | 0x35, .. }) => true,
                        _ => false,
                    });
                    if matches!(op, Op::SetOrientation { .. }) && (orc.orient || orc.fault_contract) && dut.orientation() != rm.orient && !reached && !reached_earlier {
                        out.violation = Some(viol(
                            case,
                            "orientation-after-failed-call",
                            name,
                            i as i64,
                            format!("orientation() = {:?} after a set_orientation that failed before the controller received the address mode (still {:?} there)", dut.orientation(), rm.orient),
                        ));
                        break;
                    }
                    // (an earlier attempt of this same call may have got through before failing)
                    reached_earlier |= reached;
                    let reached = reached || outstanding_failure;
                    if !reached && case.seed & 1 == 1 {
                        // this client does not retry: the failed call changed nothing at the
                        // controller, so the display must carry on exactly as before it
                        skipped_failed_call = true;
                        stats.probes[probe("failed_call_not_retried")] += 1;
                        reached_earlier = false;
                        i += 1;
                        continue;
                    }
                    outstanding_failure = true;
                    retried = true;
                    continue; // same i again
                }
            }
        }

        // ------------------------------------------------ oracles after a successful call
        stats.checked_calls += 1;
        let prev_orient = rm.orient;
        rm.apply(op);
        if let Op::Reinit { .. } = op {
            rm.reconfigure(&cfg);
            stats.probes[probe("restarted")] += 1;
        }
        if let Op::SetOrientation { .. } = op {
            if rm.orient != prev_orient {
                stats.probes[probe("orientation_changed")] += 1;
            }
        }
        if matches!(op, Op::Sleep | Op::Wake) {
            stats.probes[probe("sleep_toggled")] += 1;
        }
        let w = wr.borrow();
        let c = w.ctrl.as_ref().unwrap();

        if !w.stub_faults.is_empty() {
            out.violation = Some(viol(case, "undriven-pin-sampled", name, i as i64, w.stub_faults[0].clone()));
            break;
        }
        if let Op::Reinit { .. } = op {
            if orc.reset {
                let first_cmd = events.iter().find_map(|e| if let CtrlEv::Cmd { op, .. } = e { Some(*op) } else { None });
                let soft = events.iter().filter(|e| matches!(e, CtrlEv::Cmd { op: 0x01, page: 0, .. })).count() as u64;
                let bwr = issues.iter().any(|i| matches!(i, Issue::BusWhileReset));
                if let Some(v) = reset_oracle(case, &cfg, &w, &w.log[log_before..], first_cmd, soft, bwr, name, i as i64) {
                    out.violation = Some(v);
                    break;
                }
            }
            if orc.init_state {
                if let Some(mut v) = init_state_oracle_cfg(case, &cfg, &w, c, &events, &issues) {
                    v.call = name.to_string();
                    v.op_index = i as i64;
                    out.violation = Some(v);
                    break;
                }
            }
        }
        if orc.no_oob {
            if let Some(is) = issues.iter().find(|x| matches!(x, Issue::OobWrite { .. } | Issue::WindowBad { .. })) {
                out.violation = Some(viol(case, "addresses-outside-framebuffer", name, i as i64, format!("{:?} during {:?}", is, short_op(op))));
                break;
            }
        }
        if orc.picture {
            if let Some(is) = issues.iter().find(|x| matches!(x, Issue::BulkFormatMismatch { .. })) {
                out.violation = Some(viol(case, "pixel-encoding", name, i as i64, format!("{:?} during {}", is, short_op(op))));
                break;
            }
        }
        if orc.picture && !matches!(op, Op::TestImage) {
            let rdirty = rm.exp.take_dirty();
            let d1 = first_diff(&c.mem, &rm.exp, Some(&dirty), case.seed ^ i as u64);
            let d2 = if d1.is_none() { first_diff(&c.mem, &rm.exp, Some(&rdirty), case.seed ^ i as u64) } else { None };
            if let Some((x, y, got, want)) = d1.or(d2) {
                out.violation = Some(viol(
                    case,
                    "picture-mismatch",
                    name,
                    i as i64,
                    format!("frame memory cell ({},{}) holds {} but the reference says {} after {:?}", x, y, cellfmt(got), cellfmt(want), short_op(op)),
                ));
                break;
            }
        }
        if orc.colmod {
            let want = if cfg.model.rgb666() { 6 } else { 5 };
            if c.colmod & 7 != want {
                out.violation = Some(viol(case, "colmod-mismatch", name, i as i64, format!("controller was told COLMOD {:#04x}, colour type needs format {}", c.colmod, want)));
                break;
            }
            if let Some(is) = issues.iter().find(|x| matches!(x, Issue::PartialPixel { .. } | Issue::FormatUnsupported { .. } | Issue::BulkFormatMismatch { .. })) {
                out.violation = Some(viol(case, "pixel-encoding", name, i as i64, format!("{:?}", is)));
                break;
            }
        }
        if orc.size || orc.orient {
            let (lw, lh) = rm.logical_size();
            if dut.size() != (lw, lh) || dut.bbox() != (0, 0, lw, lh) {
                out.violation = Some(viol(case, "size-mismatch", name, i as i64, format!("size {:?} bbox {:?}, expected {}x{}", dut.size(), dut.bbox(), lw, lh)));
                break;
            }
        }
        if orc.orient {
            if dut.orientation() != rm.orient {
                out.violation = Some(viol(case, "orientation-mismatch", name, i as i64, format!("orientation() = {:?}, last set {:?}", dut.orientation(), rm.orient)));
                break;
            }
            let want = madctl_ref(cfg.madctl_bits().0, rm.orient, cfg.madctl_bits().1);
            if c.madctl != want {
                out.violation = Some(viol(case, "madctl-mismatch", name, i as i64, format!("controller holds MADCTL {:#010b}, expected {:#010b}", c.madctl, want)));
                break;
            }
        }
        if orc.framing && op.is_drawing() {
            let over_supplied = match op {
                Op::SetPixels { sx, sy, ex, ey, colors } => colors.len() > (*ex as u64 - *sx as u64 + 1) * (*ey as u64 - *sy as u64 + 1),
                _ => false,
            };
            if let Some(v) = framing_oracle(case, name, i as i64, op, &events, &issues, !over_supplied) {
                out.violation = Some(v);
                break;
            }
        }
        if orc.counts {
            if let Some(v) = counts_oracle(case, name, i as i64, op, &events, &w, log_before, &cfg, &rm, visible, &mut measured_cap, &mut stats) {
                out.violation = Some(v);
                break;
            }
        }
        if orc.sleep {
            let ds = dut.is_sleeping();
            if ds != rm.sleeping {
                out.violation = Some(viol(case, "sleep-flag", name, i as i64, format!("is_sleeping() = {}, last successful of sleep/wake says {}", ds, rm.sleeping)));
                break;
            }
            if !outstanding_failure && c.sleeping != ds {
                out.violation = Some(viol(case, "sleep-state-diverged", name, i as i64, format!("controller sleeping = {}, driver says {}", c.sleeping, ds)));
                break;
            }
            for e in events.iter() {
                if let CtrlEv::Cmd { op: o @ (0x10 | 0x11), t_ns, .. } = e {
                    if w.now_ns < t_ns + 120_000_000 {
                        out.violation = Some(viol(case, "sleep-delay-short", name, i as i64, format!("command {:#04x} at {} ns, call returned at {} ns", o, t_ns, w.now_ns)));
                    }
                }
            }
            if out.violation.is_some() {
                break;
            }
            let _ = t_before;
        }
        if orc.scroll {
            if let Some(v) = scroll_oracle(case, name, i as i64, op, &events, fbh, &mut stats) {
                out.violation = Some(v);
                break;
            }
        }
        if orc.test_image {
            if let Op::TestImage = op {
                if let Some(v) = crate::timg::display_oracle(case, i as i64, &cfg, &rm, c, &issues) {
                    out.violation = Some(v);
                    break;
                }
            }
        }
        drop(w);
        i += 1;
    }

    // ---------------------------------------------------------------- after the run
    if out.violation.is_none() && out.harness_error.is_none() && out.skipped.is_none() {
        let w = wr.borrow();
        let c = w.ctrl.as_ref().unwrap();
        if orc.picture && !case.program.iter().any(|o| matches!(o, Op::TestImage)) {
            if let Some((x, y, got, want)) = first_diff(&c.mem, &rm.exp, None, case.seed) {
                out.violation = Some(viol(case, "picture-mismatch", "end-of-run", case.program.len() as i64, format!("frame memory cell ({},{}) holds {} but the reference says {}", x, y, cellfmt(got), cellfmt(want))));
            }
        }
        if orc.sleep && fault_free {
            let ts = &c.sleep_cmd_times;
            for k in 1..ts.len() {
                if ts[k].1 < ts[k - 1].1 + 120_000_000 {
                    out.violation = Some(viol(case, "sleep-commands-too-close", "history", case.program.len() as i64, format!("{:#04x} at {} ns then {:#04x} at {} ns", ts[k - 1].0, ts[k - 1].1, ts[k].0, ts[k].1)));
                    break;
                }
            }
        }
    }
    if !reinit_dead {
        out.final_orient = Some(dut.orientation());
        out.final_size = Some(dut.size());
    }
    drop(dut);
    finish(out, stats, &wr, opt)
}

fn cellfmt(v: u32) -> String {
    if v == crate::mem::UNTOUCHED {
        "<untouched>".to_string()
    } else {
        format!("{:#x}", v)
    }
}

pub fn short_op(op: &Op) -> String {
    match op {
        Op::DrawIter { pixels } => {
            let head: Vec<_> = pixels.iter().take(4).collect();
            format!("draw_iter({} pixels, first {:?})", pixels.len(), head)
        }
        Op::SetPixels { sx, sy, ex, ey, colors } => format!("set_pixels({},{},{},{}, {} colours)", sx, sy, ex, ey, colors.len()),
        Op::FillContiguous { rect, colors } => format!("fill_contiguous({:?}, {} colours)", rect, colors.len()),
        other => format!("{:?}", other),
    }
}

fn op_probes(op: &Op, rm: &RefModel, stats: &mut RunStats) {
    let (lw, lh) = rm.logical_size();
    let mut rect_probe = |r: &crate::case::Rect, stats: &mut RunStats| {
        if r.w == 0 || r.h == 0 {
            stats.probes[probe("rect_zero")] += 1;
            return;
        }
        let x1 = r.x as i64 + r.w as i64 - 1;
        let y1 = r.y as i64 + r.h as i64 - 1;
        let mut n = 0;
        if r.x < 0 && x1 >= 0 {
            stats.probes[probe("clip_left")] += 1;
            n += 1;
        }
        if r.y < 0 && y1 >= 0 {
            stats.probes[probe("clip_top")] += 1;
            n += 1;
        }
        if x1 >= lw as i64 && (r.x as i64) < lw as i64 {
            stats.probes[probe("clip_right")] += 1;
            n += 1;
        }
        if y1 >= lh as i64 && (r.y as i64) < lh as i64 {
            stats.probes[probe("clip_bottom")] += 1;
            n += 1;
        }
        if n >= 2 {
            stats.probes[probe("clip_multi")] += 1;
        }
        if n == 4 {
            stats.probes[probe("rect_encloses")] += 1;
        }
        if rm.clip(r).is_none() {
            stats.probes[probe("rect_disjoint")] += 1;
        }
    };
    match op {
        Op::FillContiguous { rect, colors } => {
            rect_probe(rect, stats);
            let area = rect.w as u64 * rect.h as u64;
            if colors.len() < area {
                stats.probes[probe("stream_short")] += 1;
            }
            if colors.len() > area {
                stats.probes[probe("stream_surplus")] += 1;
            }
        }
        Op::FillSolid { rect, .. } => rect_probe(rect, stats),
        Op::SetPixel { x, y, .. } => {
            if *x >= 256 || *y >= 256 {
                stats.probes[probe("coord_ge_256")] += 1;
            }
        }
        Op::DrawIter { pixels } => {
            if pixels.iter().any(|p| (p.0 >= 256 && (p.0 as u32) < lw) || (p.1 >= 256 && (p.1 as u32) < lh)) {
                stats.probes[probe("coord_ge_256")] += 1;
            }
            if pixels.iter().any(|p| p.0 >= 65536 || p.1 >= 65536) {
                stats.probes[probe("coord_ge_65536")] += 1;
            }
            if pixels.iter().any(|p| p.0 < 0 || p.1 < 0) {
                stats.probes[probe("coord_negative")] += 1;
            }
            // a left-to-right run longer than 50
            let mut run = 0u32;
            let mut last: Option<(i32, i32)> = None;
            for &(x, y, _) in pixels {
                if let Some((lx, ly)) = last {
                    if ly == y && lx as i64 + 1 == x as i64 {
                        run += 1;
                    } else {
                        run = 1;
                    }
                } else {
                    run = 1;
                }
                last = Some((x, y));
                if run == 51 {
                    stats.probes[probe("draw_iter_long_run")] += 1;
                }
            }
        }
        Op::ScrollRegion { top, bottom } => {
            if *top as u32 + *bottom as u32 >= 65536 {
                stats.probes[probe("scroll_sum_overflow_region")] += 1;
            }
        }
        _ => {}
    }
}

/// "without issuing any further pin or bus operation in that call": nothing but delays may
/// follow the first failed low-level operation in the log from `since`
fn ops_after_fault(case: &Case, w: &World, since: usize, call: &str, idx: i64) -> Option<Violation> {
    let mut failed_at: Option<usize> = None;
    for (k, ev) in w.log[since..].iter().enumerate() {
        match ev.kind {
            EvKind::PinSet | EvKind::SpiTx | EvKind::TraceCall => {
                if let Some(f) = failed_at {
                    return Some(viol(
                        case,
                        "operation-after-failure",
                        call,
                        idx,
                        format!("low-level operation #{} ({:?} id {}) was issued after operation #{} had failed", ev.llop, ev.kind, ev.id, w.log[since + f].llop),
                    ));
                }
                if !ev.ok {
                    failed_at = Some(k);
                }
            }
            _ => {}
        }
    }
    None
}

fn init_state_oracle(case: &Case, w: &World, c: &Controller) -> Option<Violation> {
    init_state_oracle_cfg(case, &case.config, w, c, &c.events, &c.issues)
}

fn init_state_oracle_cfg(case: &Case, cfg: &Config, w: &World, c: &Controller, events: &[CtrlEv], issues: &[Issue]) -> Option<Violation> {
    let v = |class: &str, d: String| Some(viol(case, class, "init", -1, d));
    if c.sleeping {
        return v("controller-asleep-after-init", "controller is still in sleep mode when init returns".into());
    }
    if !c.display_on {
        return v("display-off-after-init", "controller display is off when init returns".into());
    }
    let want = madctl_ref(cfg.madctl_bits().0, cfg.orient, cfg.madctl_bits().1);
    if c.madctl != want {
        return v("madctl-mismatch", format!("controller holds MADCTL {:#010b}, options encode to {:#010b}", c.madctl, want));
    }
    let fmt = if cfg.model.rgb666() { 6 } else { 5 };
    if c.colmod & 7 != fmt {
        return v("colmod-mismatch", format!("COLMOD {:#04x} announced, colour type needs interface format {}", c.colmod, fmt));
    }
    if c.inverted != cfg.invert {
        return v("inversion-mismatch", format!("controller inverted = {}, option says {}", c.inverted, cfg.invert));
    }
    if events.iter().any(|e| matches!(e, CtrlEv::Burst { pixels, .. } if *pixels > 0)) {
        return v("pixel-memory-written-in-init", "pixel data sent during init".into());
    }
    if events.iter().any(|e| matches!(e, CtrlEv::Cmd { op: 0x2C | 0x3C, page: 0, .. })) {
        return v("pixel-memory-written-in-init", "memory write command during init".into());
    }
    match c.sleep_cmd_times.iter().rev().find(|(o, _)| *o == 0x11) {
        None => return v("no-sleep-out", "init never sent sleep-out".into()),
        Some((_, t)) => {
            if w.now_ns < t + 120_000_000 {
                return v("returns-too-early-after-sleep-out", format!("sleep-out at {} ns, init returned at {} ns", t, w.now_ns));
            }
        }
    }
    if let Some(is) = issues.iter().find(|i| matches!(i, Issue::Arity { .. } | Issue::OrphanData | Issue::HiByte { .. })) {
        return v("malformed-init-traffic", format!("{:?}", is));
    }
    None
}

/// Timeline pattern of one initialisation: `log` is the slice of the world's event log that
/// belongs to it, `first_cmd` / `soft_resets` what the controller saw during it.
fn reset_oracle(case: &Case, cfg: &Config, w: &World, log: &[crate::world::Ev], first_cmd: Option<u8>, soft_resets: u64, bus_while_reset: bool, call: &str, idx: i64) -> Option<Violation> {
    let v = |class: &str, d: String| Some(viol(case, class, call, idx, d));
    let is_bus = |e: &crate::world::Ev| match e.kind {
        EvKind::SpiTx | EvKind::TraceCall | EvKind::Latch => true,
        EvKind::PinSet => e.id != PIN_RST,
        EvKind::Delay => false,
    };
    if cfg.rst {
        // the statement: drive low, wait >= 10 us, drive high, leave high, nothing on the bus
        // until the pin is high again. (Driving the pin high before the pulse, or high again
        // later, is not excluded by it and is tolerated.)
        let all_rst: Vec<&crate::world::Ev> = log.iter().filter(|e| e.kind == EvKind::PinSet && e.id == PIN_RST).collect();
        let Some(p0) = all_rst.iter().position(|e| e.flag == 0) else {
            return v("reset-not-first", "the reset pin is never driven low during init".into());
        };
        let rst_events = &all_rst[p0..];
        if rst_events.len() < 2 || rst_events[1].flag != 1 {
            return v("reset-pulse-shape", format!("reset pin events: {:?}", all_rst.iter().map(|e| (e.flag, e.t_ns)).collect::<Vec<_>>()));
        }
        if rst_events[2..].iter().any(|e| e.flag == 0) {
            return v("reset-pulse-shape", format!("reset pin driven low again after the pulse: {:?}", all_rst.iter().map(|e| (e.flag, e.t_ns)).collect::<Vec<_>>()));
        }
        if rst_events[1].t_ns < rst_events[0].t_ns + 10_000 {
            return v("reset-pulse-short", format!("reset low for {} ns", rst_events[1].t_ns - rst_events[0].t_ns));
        }
        let l1 = rst_events[1].llop;
        if let Some(e) = log.iter().find(|e| is_bus(e) && e.llop < l1) {
            return v("bus-activity-before-reset-released", format!("{:?} id {} before the reset pin was high again", e.kind, e.id));
        }
        if w.pins[PIN_RST as usize] != Level::High {
            return v("reset-left-low", "reset pin is not high when init returns".into());
        }
        if soft_resets != 0 {
            return v("soft-reset-with-reset-pin", format!("{} software reset command(s) although a reset pin is configured", soft_resets));
        }
        if bus_while_reset {
            return v("bus-activity-during-reset", "controller saw bus traffic while held in reset".into());
        }
    } else {
        if first_cmd != Some(0x01) {
            return v("soft-reset-not-first", format!("first command on the bus is {:02x?}", first_cmd));
        }
        if soft_resets != 1 {
            return v("soft-reset-count", format!("{} software resets", soft_resets));
        }
        if log.iter().any(|e| e.kind == EvKind::PinSet && e.id == PIN_RST) {
            return v("reset-pin-touched", "reset pin driven although none was configured".into());
        }
    }
    None
}

fn framing_oracle(case: &Case, name: &str, idx: i64, op: &Op, events: &[CtrlEv], issues: &[Issue], check_overrun: bool) -> Option<Violation> {
    let v = |class: &str, d: String| Some(viol(case, class, name, idx, d));
    if let Some(is) = issues.iter().find(|i| {
        matches!(
            i,
            Issue::WindowBad { .. }
                | Issue::Arity { .. }
                | Issue::PartialPixel { .. }
                | Issue::OrphanData
                | Issue::WriteContinue
                | Issue::FormatUnsupported { .. }
                | Issue::OobWrite { .. }
                | Issue::BulkFormatMismatch { .. }
        )
    }) {
        return v("malformed-frame", format!("{:?} during {}", is, short_op(op)));
    }
    // grammar: ( CASET[4] RASET[4] RAMWR burst )*
    let mut k = 0;
    while k < events.len() {
        let ok = matches!(&events[k], CtrlEv::Cmd { op: 0x2A, params, .. } if params.len() == 4)
            && matches!(events.get(k + 1), Some(CtrlEv::Cmd { op: 0x2B, params, .. }) if params.len() == 4)
            && matches!(events.get(k + 2), Some(CtrlEv::Cmd { op: 0x2C, .. }))
            && matches!(events.get(k + 3), Some(CtrlEv::Burst { .. }));
        if !ok {
            let seq: Vec<String> = events
                .iter()
                .skip(k)
                .take(5)
                .map(|e| match e {
                    CtrlEv::Cmd { op, params, .. } => format!("cmd {:#04x}[{}]", op, params.len()),
                    CtrlEv::Burst { pixels, .. } => format!("burst({})", pixels),
                    CtrlEv::ResetEdge { high, .. } => format!("reset {}", high),
                })
                .collect();
            return v("grammar", format!("expected CASET RASET RAMWR pixels, got {:?} during {}", seq, short_op(op)));
        }
        if let CtrlEv::Burst { pixels, area, window_ok, sc, ec, sp, ep } = &events[k + 3] {
            if !window_ok {
                return v("window-outside-framebuffer", format!("window cols {}..{} pages {}..{} during {}", sc, ec, sp, ep, short_op(op)));
            }
            if check_overrun && pixels > area {
                return v("overrun", format!("{} pixels into a window of {} cells (cols {}..{} pages {}..{}) during {}", pixels, area, sc, ec, sp, ep, short_op(op)));
            }
        }
        k += 4;
    }
    None
}

#[allow(clippy::too_many_arguments)]
fn counts_oracle(
    case: &Case,
    name: &str,
    idx: i64,
    op: &Op,
    events: &[CtrlEv],
    w: &World,
    log_before: usize,
    cfg: &Config,
    rm: &RefModel,
    visible: u64,
    measured_cap: &mut Option<u64>,
    stats: &mut RunStats,
) -> Option<Violation> {
    let v = |class: &str, d: String| Some(viol(case, class, name, idx, d));
    let ramwr = events.iter().filter(|e| matches!(e, CtrlEv::Cmd { op: 0x2C, .. })).count() as u64;
    let (lw, lh) = rm.logical_size();
    match op {
        Op::FillSolid { .. } | Op::FillContiguous { .. } | Op::Clear { .. } => {
            let want = if visible > 0 { 1 } else { 0 };
            if ramwr != want {
                return v("window-count", format!("{} address-window set-ups for {} ({} visible points), expected exactly {}", ramwr, short_op(op), visible, want));
            }
        }
        Op::DrawIter { pixels } => {
            // the row capacity is measured from the driver's behaviour on one long run
            let longest = crate::props::row_capacity();
            *measured_cap = Some(longest);
            if cfg!(feature = "batch") && longest < 2 {
                return v("row-capacity", format!("longest burst of a 1000-pixel left-to-right run was {} pixel(s); batching must merge at least two", longest));
            }
            let cap = if cfg!(feature = "batch") { longest.max(1) } else { 1 };
            let (bound, inb) = runs_split(pixels, lw, lh, cap);
            if cfg!(feature = "batch") && ramwr > bound {
                return v("window-count", format!("{} window set-ups for a stream whose runs split at the measured capacity {} need at most {}: {}", ramwr, cap, bound, short_op(op)));
            }
            if ramwr > inb {
                return v("window-count", format!("{} window set-ups for {} in-bounds pixels", ramwr, inb));
            }
            if cap > 1 && bound < inb {
                stats.probes[probe("row_flush_capacity")] += 1;
            }
        }
        _ => {}
    }
    // SPI: transactions per burst of b bytes <= floor(b / usable) + 1
    if let Transport::Spi { buf } = cfg.transport {
        let bpp = if cfg.model.rgb666() { 3u64 } else { 2u64 };
        let usable = (buf as u64 / bpp) * bpp;
        if buf as u64 % bpp != 0 {
            stats.probes[probe("spi_buf_not_multiple")] += 1;
        }
        // walk the SPI transactions of this call
        let mut state = 0; // 0 idle, 1 after command byte (next dc-high tx = args), 2 in data
        let mut cur_is_ramwr = false;
        let mut tx = 0u64;
        let mut bytes = 0u64;
        let mut bursts: Vec<(u64, u64)> = Vec::new();
        let mut pending_cmd_byte: Option<u8> = None;
        for ev in &w.log[log_before..] {
            match ev.kind {
                EvKind::SpiTx => {
                    if ev.flag == 0 {
                        if state == 2 && cur_is_ramwr {
                            bursts.push((tx, bytes));
                        }
                        state = 1;
                        tx = 0;
                        bytes = 0;
                        pending_cmd_byte = None;
                        cur_is_ramwr = false;
                    } else if state == 1 {
                        state = 2;
                    } else if state == 2 {
                        tx += 1;
                        bytes += ev.val;
                    }
                }
                EvKind::Latch => {
                    if ev.flag == 0 && pending_cmd_byte.is_none() {
                        pending_cmd_byte = Some(ev.val as u8);
                        cur_is_ramwr = ev.val as u8 == 0x2C;
                    }
                }
                _ => {}
            }
        }
        if state == 2 && cur_is_ramwr {
            bursts.push((tx, bytes));
        }
        for (tx, bytes) in bursts {
            let bound = bytes / usable + 1;
            if bytes > 0 && bytes % usable == 0 {
                stats.probes[probe("spi_exact_multiple")] += 1;
            }
            if bytes < usable {
                stats.probes[probe("spi_count_lt_capacity")] += 1;
            }
            if tx > bound {
                return v("spi-transactions", format!("burst of {} bytes took {} SPI transactions; buffer {} (usable {}) allows at most {}", bytes, tx, buf, usable, bound));
            }
        }
    }
    None
}

fn scroll_oracle(case: &Case, name: &str, idx: i64, op: &Op, events: &[CtrlEv], fbh: u16, _stats: &mut RunStats) -> Option<Violation> {
    let v = |class: &str, d: String| Some(viol(case, class, name, idx, d));
    match op {
        Op::ScrollRegion { top, bottom } => {
            let cmds: Vec<&CtrlEv> = events.iter().filter(|e| matches!(e, CtrlEv::Cmd { .. })).collect();
            if cmds.len() != 1 {
                return v("scroll-command-count", format!("{} commands for one scroll region set-up", cmds.len()));
            }
            if let CtrlEv::Cmd { op: o, params, .. } = cmds[0] {
                if *o != 0x33 || params.len() != 6 {
                    return v("scroll-command-shape", format!("command {:#04x} with {} parameter bytes", o, params.len()));
                }
                let tfa = u16::from_be_bytes([params[0], params[1]]) as u32;
                let vsa = u16::from_be_bytes([params[2], params[3]]) as u32;
                let bfa = u16::from_be_bytes([params[4], params[5]]) as u32;
                if tfa + vsa + bfa != fbh as u32 {
                    return v("scroll-areas-sum", format!("TFA {} + VSA {} + BFA {} != framebuffer height {} for ({}, {})", tfa, vsa, bfa, fbh, top, bottom));
                }
                if *top as u32 + *bottom as u32 <= fbh as u32 && (tfa != *top as u32 || bfa != *bottom as u32) {
                    return v("scroll-areas-not-passed-through", format!("({}, {}) fits {} rows but TFA {} BFA {} were sent", top, bottom, fbh, tfa, bfa));
                }
            }
        }
        Op::ScrollOffset { offset } => {
            let cmds: Vec<&CtrlEv> = events.iter().filter(|e| matches!(e, CtrlEv::Cmd { .. })).collect();
            if cmds.len() != 1 {
                return v("scroll-command-count", format!("{} commands for one scroll offset", cmds.len()));
            }
            if let CtrlEv::Cmd { op: o, params, .. } = cmds[0] {
                if *o != 0x37 || params.as_slice() != offset.to_be_bytes() {
                    return v("scroll-offset", format!("command {:#04x} params {:02x?} for offset {}", o, params, offset));
                }
            }
        }
        _ => {}
    }
    None
}

/// which Kind a transport has, for messages
pub fn kind_name(k: Kind) -> &'static str {
    match k {
        Kind::Serial => "serial",
        Kind::P8 => "parallel8",
        Kind::P16 => "parallel16",
    }
}
