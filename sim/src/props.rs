//! Per-property workloads: how a run index becomes one or more explicit cases, and how a
//! case is judged (`judge` is a pure function of the case and the code under test, so the
//! search, the minimiser and replay all use the same one).

use crate::case::*;
use crate::exec::{exec_case, ExecOpt, Outcome, RunStats, Violation, PROBE_NAMES};
use crate::gen::*;
use crate::mem::first_diff;
use crate::rng::{hash_str, splitmix64, Fnv, Rng};
use crate::timg;
use crate::world::{Fault, FaultKind};
use crate::xport::{exec_xcase, gen_xcase, XCase, XKind, XOp, XProbes};
use serde::{Deserialize, Serialize};
use std::sync::OnceLock;

#[derive(Clone, Copy, Debug, PartialEq, Eq)]
pub enum Tier {
    Quick,
    Thorough,
}

#[derive(Clone, Debug, PartialEq, Eq, Serialize, Deserialize)]
pub struct PlainCase {
    pub property: String,
    /// top-left corner of the target's bounding box
    #[serde(default)]
    pub ox: i32,
    #[serde(default)]
    pub oy: i32,
    pub w: u32,
    pub h: u32,
    /// 0 Rgb565, 1 Rgb666, 2 Rgb888
    pub colour: u8,
}

#[derive(Clone, Debug, PartialEq, Eq, Serialize, Deserialize)]
pub enum ReplayCase {
    Display(Case),
    Xport(XCase),
    Plain(PlainCase),
}

impl ReplayCase {
    pub fn property(&self) -> &str {
        match self {
            ReplayCase::Display(c) => &c.property,
            ReplayCase::Xport(c) => &c.property,
            ReplayCase::Plain(c) => &c.property,
        }
    }
}

pub struct Judged {
    pub violation: Option<Violation>,
    pub harness_error: Option<String>,
    pub skipped: Option<String>,
    pub stats: RunStats,
    pub hash: u64,
    pub evals: u64,
    pub xprobes: XProbes,
}

impl Judged {
    fn from_outcome(o: Outcome) -> Judged {
        Judged {
            violation: o.violation,
            harness_error: o.harness_error,
            skipped: o.skipped.map(|s| s.to_string()),
            stats: o.stats,
            hash: o.hash,
            evals: 1,
            xprobes: XProbes::default(),
        }
    }
}

pub fn add_stats(a: &mut RunStats, b: &RunStats) {
    a.llops += b.llops;
    a.sim_ns += b.sim_ns;
    a.calls += b.calls;
    a.checked_calls += b.checked_calls;
    a.pixels_to_ctrl += b.pixels_to_ctrl;
    a.commands_to_ctrl += b.commands_to_ctrl;
    for i in 0..6 {
        a.faults_fired[i] += b.faults_fired[i];
    }
    for i in 0..PROBE_NAMES.len() {
        a.probes[i] += b.probes[i];
    }
    a.ctrl_state_hash ^= b.ctrl_state_hash;
}

pub fn add_xprobes(a: &mut XProbes, b: &XProbes) {
    a.count_zero += b.count_zero;
    a.exact_multiple += b.exact_multiple;
    a.count_lt_capacity += b.count_lt_capacity;
    a.buf_not_multiple += b.buf_not_multiple;
    a.fast_path += b.fast_path;
    a.nearly_same += b.nearly_same;
    a.cache_hit += b.cache_hit;
    a.rewrite_after_failure += b.rewrite_after_failure;
    a.retry_same_value += b.retry_same_value;
}

// ------------------------------------------------------------------ C20: measured capacity

static ROW_CAPACITY: OnceLock<u64> = OnceLock::new();

/// longest pixel burst the driver produces for one 1000-pixel left-to-right run on a wide
/// display: the row capacity is measured from behaviour, not assumed
pub fn row_capacity() -> u64 {
    *ROW_CAPACITY.get_or_init(|| {
        let cfg = Config {
            model: ModelId::Sim2048x2048,
            transport: Transport::Trace(Kind::Serial),
            w: 1200,
            h: 2,
            ox: 0,
            oy: 0,
            orient: Orient { rot: 0, mirrored: false },
            bgr: false,
            invert: false,
            refresh: 0,
            rst: false,
            init_levels: 3,
            clock_all_methods: true,
            latch_partial: false,
            by_ref: false,
            builder_order: 0,
            zst_rst: false,
            bus_from: false,
        };
        let pixels: Vec<(i32, i32, u32)> = (0..1000).map(|x| (x + 50, 1, (x * 7 + 1) as u32)).collect();
        let case = Case { property: "C20m".into(), seed: 0, config: cfg, program: vec![Op::DrawIter { pixels }], faults: vec![], mode: String::new() };
        let o2 = exec_case(&case, &ExecOpt { keep_words: true, keep_mem: false, force_log: false });
        // count data words between RAMWR commands
        let mut longest = 0u64;
        let mut cur = 0u64;
        let mut in_ramwr = false;
        if let Some(words) = o2.words {
            for (dc, v) in words {
                if !dc {
                    if in_ramwr {
                        longest = longest.max(cur / 2);
                    }
                    in_ramwr = v == 0x2C;
                    cur = 0;
                } else if in_ramwr {
                    cur += 1;
                }
            }
            if in_ramwr {
                longest = longest.max(cur / 2);
            }
        }
        longest
    })
}

// ------------------------------------------------------------------ judge

pub fn judge(rc: &ReplayCase) -> Judged {
    match rc {
        ReplayCase::Xport(c) => {
            let o = exec_xcase(c);
            Judged { violation: o.violation, harness_error: o.harness_error, skipped: None, stats: o.stats, hash: o.hash, evals: 1, xprobes: o.probes }
        }
        ReplayCase::Plain(c) => judge_plain(c),
        ReplayCase::Display(c) => match c.property.as_str() {
            "C03" => judge_c03(c),
            "C10" => judge_c10(c),
            "C19" if c.mode == "consequence" => judge_c19_consequence(c),
            _ => Judged::from_outcome(exec_case(c, &ExecOpt::default())),
        },
    }
}

fn merge(mut a: Judged, b: Judged) -> Judged {
    add_stats(&mut a.stats, &b.stats);
    a.evals += b.evals;
    a.hash = splitmix64(a.hash ^ b.hash);
    if a.violation.is_none() {
        a.violation = b.violation;
    }
    if a.harness_error.is_none() {
        a.harness_error = b.harness_error;
    }
    if a.skipped.is_none() {
        a.skipped = b.skipped;
    }
    a
}

/// twin: draw_iter(stream) vs set_pixel for each in-bounds pixel in order
fn judge_c03(c: &Case) -> Judged {
    let opt = ExecOpt { keep_mem: true, keep_words: false, force_log: false };
    let a = exec_case(c, &opt);
    let (lw, lh) = c.config.logical_size();
    let mut twin = c.clone();
    twin.program = Vec::new();
    for op in &c.program {
        match op {
            Op::DrawIter { pixels } => {
                for &(x, y, col) in pixels {
                    if x >= 0 && y >= 0 && (x as u32) < lw && (y as u32) < lh {
                        twin.program.push(Op::SetPixel { x: x as u16, y: y as u16, c: col });
                    }
                }
            }
            other => twin.program.push(other.clone()),
        }
    }
    let b = exec_case(&twin, &opt);
    let mut v = None;
    if a.violation.is_none() && b.violation.is_none() && a.skipped.is_none() && b.skipped.is_none() {
        if let (Some(ma), Some(mb)) = (&a.mem, &b.mem) {
            if let Some((x, y, va, vb)) = first_diff(ma, mb, None, c.seed) {
                v = Some(Violation {
                    property: c.property.clone(),
                    class: "twin-mismatch".into(),
                    call: "draw_iter".into(),
                    op_index: 0,
                    detail: format!("cell ({},{}) holds {:#x} after draw_iter but {:#x} after the same pixels through set_pixel", x, y, va, vb),
                });
            }
        }
    }
    // a failure of the pixel-by-pixel control run is not draw_iter's business
    let b_viol_is_control = b.violation.is_some() && a.violation.is_none();
    let mut j = merge(Judged::from_outcome(a), Judged::from_outcome(b));
    if b_viol_is_control {
        j.violation = None;
        j.skipped = Some("control run (set_pixel) failed".into());
    }
    if j.violation.is_none() {
        j.violation = v;
    }
    j
}

/// history of set_orientation calls, then a drawing program; twin built fresh with the
/// last orientation gets the same final program
fn judge_c10(c: &Case) -> Judged {
    let opt = ExecOpt { keep_mem: false, keep_words: true, force_log: false };
    let a = exec_case(c, &opt);
    let last_so = c.program.iter().rposition(|o| matches!(o, Op::SetOrientation { .. }));
    let Some(k) = last_so else {
        return Judged::from_outcome(a);
    };
    let Op::SetOrientation { o: last } = &c.program[k] else { unreachable!() };
    let mut twin = c.clone();
    twin.config.orient = *last;
    twin.program = c.program[k + 1..].to_vec();
    twin.property = "C10t".into(); // no oracles of its own: it is the yardstick
    let b = exec_case(&twin, &opt);
    let mut v = None;
    if a.violation.is_none() && a.skipped.is_none() && b.skipped.is_none() && b.violation.is_none() && a.harness_error.is_none() && b.harness_error.is_none() {
        let mk = |class: &str, detail: String| {
            Some(Violation { property: c.property.clone(), class: class.into(), call: "set_orientation".into(), op_index: k as i64, detail })
        };
        if a.final_orient != b.final_orient || a.final_size != b.final_size {
            v = mk("differs-from-fresh-build", format!("orientation/size {:?}/{:?}, a display built with {:?} reports {:?}/{:?}", a.final_orient, a.final_size, last, b.final_orient, b.final_size));
        } else if let (Some(wa), Some(wb)) = (&a.words, &b.words) {
            if a.op_word_idx.len() == c.program.len() && b.op_word_idx.len() == twin.program.len() {
                let sa = if k + 1 < c.program.len() { a.op_word_idx[k + 1] } else { wa.len() };
                let sb = if !twin.program.is_empty() { b.op_word_idx[0] } else { wb.len() };
                if wa[sa..] != wb[sb..] {
                    let n = wa[sa..].iter().zip(wb[sb..].iter()).position(|(x, y)| x != y).unwrap_or(0);
                    v = mk(
                        "bus-trace-differs-from-fresh-build",
                        format!(
                            "final drawing program: bus word {} is {:?}, a display built with {:?} sends {:?} ({} vs {} words)",
                            n,
                            wa[sa..].get(n),
                            last,
                            wb[sb..].get(n),
                            wa.len() - sa,
                            wb.len() - sb
                        ),
                    );
                }
            }
        }
    }
    let mut ja = Judged::from_outcome(a);
    let mut jb = Judged::from_outcome(b);
    jb.violation = None;
    jb.skipped = None;
    if ja.violation.is_none() {
        ja.violation = v;
    }
    merge(ja, jb)
}

fn swap_rb(v: u32, rgb666: bool) -> u32 {
    if v == crate::mem::UNTOUCHED {
        return v;
    }
    if rgb666 {
        let t = v & crate::ctrl::TAG18;
        let r = (v >> 12) & 63;
        let g = (v >> 6) & 63;
        let b = v & 63;
        t | b << 12 | g << 6 | r
    } else {
        let r = (v >> 11) & 31;
        let g = (v >> 5) & 63;
        let b = v & 31;
        b << 11 | g << 5 | r
    }
}

fn invert_c(v: u32, rgb666: bool) -> u32 {
    if v == crate::mem::UNTOUCHED {
        return v;
    }
    if rgb666 {
        (v & crate::ctrl::TAG18) | (!v & 0x3FFFF)
    } else {
        !v & 0xFFFF
    }
}

/// what the user of the true panel `t` sees when the driver was configured as `b`
fn visible(t: &Config, b: &Config) -> Option<(u32, u32, Vec<u32>, Judged)> {
    let case = Case { property: "C19v".into(), seed: 0, config: b.clone(), program: vec![Op::TestImage], faults: vec![], mode: String::new() };
    let o = exec_case(&case, &ExecOpt { keep_mem: true, keep_words: false, force_log: false });
    if o.skipped.is_some() || o.harness_error.is_some() || o.violation.is_some() {
        return None;
    }
    let mem = o.mem.clone()?;
    let (lw, lh, mut pic) = timg::logical_picture(&mem, t.w as u32, t.h as u32, t.ox as u32, t.oy as u32, t.orient);
    let rgb666 = t.model.rgb666();
    for v in pic.iter_mut() {
        if b.bgr != t.bgr {
            *v = swap_rb(*v, rgb666);
        }
        if b.invert != t.invert {
            *v = invert_c(*v, rgb666);
        }
    }
    Some((lw, lh, pic, Judged::from_outcome(o)))
}

fn judge_c19_consequence(c: &Case) -> Judged {
    let t = &c.config;
    let Some((_, _, good, mut j)) = visible(t, t) else {
        let mut j = Judged::from_outcome(exec_case(c, &ExecOpt::default()));
        j.skipped = Some("true configuration could not be drawn".into());
        return j;
    };
    let mut variants: Vec<(String, Config)> = Vec::new();
    let mut push = |name: &str, f: &dyn Fn(&mut Config)| {
        let mut b = t.clone();
        f(&mut b);
        if b != *t && b.fits() {
            variants.push((name.to_string(), b));
        }
    };
    push("width+1", &|b| b.w = b.w.saturating_add(1));
    push("width-1", &|b| b.w -= 1);
    push("height+1", &|b| b.h = b.h.saturating_add(1));
    push("height-1", &|b| b.h -= 1);
    push("offset_x+1", &|b| b.ox = b.ox.saturating_add(1));
    push("offset_x-1", &|b| b.ox = b.ox.saturating_sub(1));
    push("offset_y+1", &|b| b.oy = b.oy.saturating_add(1));
    push("offset_y-1", &|b| b.oy = b.oy.saturating_sub(1));
    for rot in 0..4u8 {
        for m in [false, true] {
            let o = Orient { rot, mirrored: m };
            push(&format!("orientation {:?}", o), &move |b| b.orient = o);
        }
    }
    push("colour order", &|b| b.bgr = !b.bgr);
    push("inversion", &|b| b.invert = !b.invert);
    for (name, b) in variants {
        if let Some((_, _, pic, jb)) = visible(t, &b) {
            let mut jb = jb;
            jb.violation = None;
            j = merge(j, jb);
            if pic == good {
                j.violation = Some(Violation {
                    property: c.property.clone(),
                    class: "misconfiguration-invisible".into(),
                    call: "test_image".into(),
                    op_index: 0,
                    detail: format!("with the wrong setting `{}` the visible picture is identical to the correctly configured one", name),
                });
                break;
            }
        }
    }
    j
}

fn judge_plain(c: &PlainCase) -> Judged {
    use embedded_graphics_core::pixelcolor::{Rgb565, Rgb666, Rgb888};
    use embedded_graphics_core::Drawable;
    use mipidsi::TestImage;
    let mut j = Judged { violation: None, harness_error: None, skipped: None, stats: RunStats::default(), hash: 0, evals: 1, xprobes: XProbes::default() };
    let n = (c.w * c.h) as usize;
    macro_rules! go {
        ($C:ty) => {{
            let mut t = timg::PlainTarget::<$C> { ox: c.ox, oy: c.oy, w: c.w, h: c.h, cells: vec![crate::mem::UNTOUCHED; n], discarded: 0, to_raw: timg::rgb_to_raw24::<$C> };
            let r = crate::exec::guarded(|| {
                let _ = TestImage::<$C>::new().draw(&mut t);
            });
            (r, t.cells, t.discarded)
        }};
    }
    let (r, cells, _discarded) = match c.colour {
        0 => go!(Rgb565),
        1 => go!(Rgb666),
        _ => go!(Rgb888),
    };
    j.stats.calls = 1;
    j.stats.checked_calls = 1;
    let mut h = Fnv::default();
    for &v in &cells {
        h.u64(v as u64);
    }
    j.hash = h.0;
    let mk = |class: &str, detail: String| Some(Violation { property: c.property.clone(), class: class.into(), call: "test_image".into(), op_index: 0, detail });
    match r {
        Err(p) => match crate::exec::classify_panic(p) {
            crate::exec::Caught::Panic(m) => j.violation = mk("panic", format!("{} on a {}x{} target", m, c.w, c.h)),
            crate::exec::Caught::Budget => j.violation = mk("nontermination", format!("{}x{} target", c.w, c.h)),
            crate::exec::Caught::Harness(s) => j.harness_error = Some(s),
        },
        Ok(()) => {
            if let Some((class, d)) = timg::picture_oracle(&cells, c.w, c.h, timg::PAL24) {
                j.violation = mk(class, d);
            }
        }
    }
    j
}

// ------------------------------------------------------------------ generation

pub struct RunResult {
    pub idx: u64,
    pub evals: u64,
    pub keys: Vec<u64>,
    pub violation: Option<(Violation, ReplayCase)>,
    pub harness_error: Option<String>,
    pub skipped: u64,
    pub skip_reasons: Vec<String>,
    pub stats: RunStats,
    pub hash: u64,
    pub sample: Option<ReplayCase>,
    pub xprobes: XProbes,
}

fn empty_result(idx: u64) -> RunResult {
    RunResult {
        idx,
        evals: 0,
        keys: Vec::new(),
        violation: None,
        harness_error: None,
        skipped: 0,
        skip_reasons: Vec::new(),
        stats: RunStats::default(),
        hash: 0,
        sample: None,
        xprobes: XProbes::default(),
    }
}

fn absorb(r: &mut RunResult, rc: ReplayCase, j: Judged, key: u64) {
    r.evals += j.evals;
    add_stats(&mut r.stats, &j.stats);
    add_xprobes(&mut r.xprobes, &j.xprobes);
    r.hash = splitmix64(r.hash ^ j.hash);
    if let Some(s) = j.skipped {
        r.skipped += 1;
        if r.skip_reasons.len() < 2 {
            r.skip_reasons.push(s);
        }
    } else if j.stats.checked_calls > 0 || j.stats.llops > 0 || matches!(rc, ReplayCase::Plain(_)) || rc.property() == "C09" {
        r.keys.push(key);
    }
    if r.harness_error.is_none() {
        r.harness_error = j.harness_error;
    }
    if r.violation.is_none() {
        if let Some(v) = j.violation {
            r.violation = Some((v, rc.clone()));
        }
    }
    if r.sample.is_none() && r.idx < 3 {
        r.sample = Some(rc);
    }
}

/// class key: configuration class x program shape class x fault class
pub fn class_key(rc: &ReplayCase) -> u64 {
    let mut h = Fnv::default();
    match rc {
        ReplayCase::Display(c) => {
            let cfg = &c.config;
            h.str(&format!("{:?}", cfg.model));
            h.str(&format!("{:?}", cfg.transport.kind()));
            h.u64(cfg.transport.pin_level() as u64);
            if let Transport::Spi { buf } = cfg.transport {
                let bpp = if cfg.model.rgb666() { 3 } else { 2 };
                h.u64((buf % bpp == 0) as u64 | ((buf / bpp).min(3) as u64) << 1);
            }
            h.u64(cfg.orient.rot as u64 | (cfg.orient.mirrored as u64) << 2);
            let (fw, fh) = cfg.model.fb();
            let cls = |o: u16, s: u16, f: u16| if o == 0 { 0 } else if o as u32 + s as u32 == f as u32 { 1 } else { 2 };
            h.u64(cls(cfg.ox, cfg.w, fw) as u64 | (cls(cfg.oy, cfg.h, fh) as u64) << 2);
            h.u64((cfg.w == 1) as u64 | ((cfg.h == 1) as u64) << 1 | ((cfg.w == fw) as u64) << 2 | ((cfg.h == fh) as u64) << 3);
            h.u64(cfg.rst as u64 | (cfg.bgr as u64) << 1 | (cfg.invert as u64) << 2 | (cfg.refresh as u64) << 3);
            for op in c.program.iter().take(8) {
                h.str(op.name());
                match op {
                    Op::DrawIter { pixels } => h.u64((pixels.len() as u64).min(64) / 8),
                    Op::FillContiguous { rect, colors } => {
                        h.u64((rect.x < 0) as u64 | ((rect.y < 0) as u64) << 1 | ((colors.len() < rect.w as u64 * rect.h as u64) as u64) << 2);
                    }
                    Op::FillSolid { rect, .. } => h.u64((rect.x < 0) as u64 | ((rect.y < 0) as u64) << 1),
                    Op::SetOrientation { o } => h.u64(o.rot as u64 | (o.mirrored as u64) << 2),
                    _ => {}
                }
            }
            h.u64(c.program.len().min(16) as u64);
            for f in c.faults.iter().take(3) {
                h.str(&format!("{:?}", std::mem::discriminant(&f.kind)));
            }
            h.u64(c.faults.len() as u64);
            if c.property == "C09" {
                // the point of C09 is the window itself
                h.u64(cfg.w as u64 | (cfg.h as u64) << 16 | (cfg.ox as u64) << 32 | (cfg.oy as u64) << 48);
            }
            if c.property == "C12" {
                for f in &c.faults {
                    h.u64(f.llop);
                }
            }
            if c.property == "C05" {
                if let Some(Op::SetPixels { colors: Colors::List(l), .. }) = c.program.first() {
                    h.u64(l.first().copied().unwrap_or(0) as u64);
                }
            }
        }
        ReplayCase::Xport(c) => {
            h.str(&format!("{:?}", c.kind));
            for op in c.ops.iter().take(10) {
                match op {
                    XOp::Cmd { args, .. } => h.u64(1 | (args.len() as u64) << 4),
                    XOp::Pixels { n, data, inexact } => h.u64(2 | (*n as u64) << 4 | ((data.len() as u64 / *n as u64).min(255)) << 8 | (*inexact as u64) << 20),
                    XOp::Repeat { n, count, pixel } => h.u64(3 | (*n as u64) << 4 | ((*count as u64).min(255)) << 8 | (pixel.iter().all(|w| *w == pixel[0]) as u64) << 20),
                    XOp::SetValue { v } => h.u64(4 | (*v as u64) << 4),
                }
            }
            h.u64(c.faults.len() as u64);
            for f in &c.faults {
                h.str(&format!("{:?}", std::mem::discriminant(&f.kind)));
            }
        }
        ReplayCase::Plain(c) => {
            h.u64(c.w as u64 | (c.h as u64) << 20 | (c.colour as u64) << 40 | ((c.ox != 0 || c.oy != 0) as u64) << 44);
        }
    }
    h.0
}

pub fn run_seed(vseed: u64, prop: &str, idx: u64) -> u64 {
    splitmix64(vseed ^ hash_str(prop).rotate_left(17) ^ idx.wrapping_mul(0x9E37_79B9_7F4A_7C15))
}

pub fn runs_for(prop: &str, tier: Tier) -> u64 {
    let batch = cfg!(feature = "batch");
    let (q, t): (u64, u64) = match prop {
        "C01" => (100_000, 2_000_000),
        "C02" => (200_000, 4_000_000),
        "C03" => (150_000, 3_000_000),
        "C04" => (300_000, 6_000_000),
        "C05" => (C05_EXHAUSTIVE_RUNS + 30_000, C05_EXHAUSTIVE_RUNS + 600_000),
        "C06" => (1_000_000, 20_000_000),
        "C07" => (1_000_000, 20_000_000),
        "C08" => (200_000, 4_000_000),
        "C09" => (8_192 + 2_000_000, 8_192 + 40_000_000),
        "C10" => (150_000, 3_000_000),
        "C11" => (10_752 + 150_000, 10_752 + 3_000_000),
        "C12" => (1_200, 20_000),
        "C13" => (200_000, 4_000_000),
        "C16" => (1_000_000, 20_000_000),
        "C17" => (300_000, 6_000_000),
        "C19" => (if batch { 48 * 48 + 49 * 49 * 3 + 8_000 } else { 3_000 }, if batch { 96 * 96 + 97 * 97 * 3 + 200_000 } else { 60_000 }),
        "C20" => (200_000, 4_000_000),
        _ => (0, 0),
    };
    let mut n = if tier == Tier::Quick { q } else { t };
    // VERIF_SCALE (e.g. 0.2) shrinks the seeded part of a batch for sensitivity sweeps; the
    // registered commands never set it
    if let Some(f) = std::env::var("VERIF_SCALE").ok().and_then(|s| s.parse::<f64>().ok()) {
        let fixed = match prop {
            "C05" => C05_EXHAUSTIVE_RUNS,
            "C09" => 8_192,
            "C11" => 10_752,
            _ => 0,
        };
        if f > 0.0 && n > fixed {
            n = fixed + (((n - fixed) as f64) * f).max(1.0) as u64;
        }
    }
    // the build without `batch` only matters where draw_iter is involved; it runs a smaller share
    if batch {
        n
    } else {
        match prop {
            "C01" | "C02" | "C08" | "C10" | "C20" => n / 2,
            "C03" => n / 10,
            "C05" | "C09" | "C11" | "C17" | "C19" => n.min(if tier == Tier::Quick { 30_000 } else { 500_000 }),
            "C06" | "C07" => 0,
            "C12" => n / 3,
            _ => n / 5,
        }
    }
}

const C05_PAIRS: [(ModelId, u8); 5] = [
    (ModelId::ILI9341Rgb565, 0),
    (ModelId::ILI9341Rgb565, 1),
    (ModelId::ILI9341Rgb565, 2),
    (ModelId::ILI9341Rgb666, 0),
    (ModelId::ILI9341Rgb666, 1),
];
const C05_CHUNK: u32 = 1024;
pub const C05_EXHAUSTIVE_RUNS: u64 = (3 * 65536 + 2 * 262144) / C05_CHUNK as u64;

fn transport_of(sel: u8, rng: &mut Rng, model: ModelId) -> Transport {
    let bpp = if model.rgb666() { 3 } else { 2 };
    match sel {
        0 => Transport::Spi { buf: if rng.coin() { *rng.pick(&SPI_BUFS).max(&bpp) } else { bpp * (1 + rng.below(50) as u32) } },
        1 => Transport::Par8,
        _ => Transport::Par16,
    }
}

fn base_config(rng: &mut Rng, model: ModelId, transport: Transport, w: u16, h: u16) -> Config {
    let (fw, fh) = model.fb();
    let ox = if rng.coin() { 0 } else { rng.below((fw - w) as u64 + 1) as u16 };
    let oy = if rng.coin() { 0 } else { rng.below((fh - h) as u64 + 1) as u16 };
    Config {
        model,
        transport,
        w,
        h,
        ox,
        oy,
        orient: gen_orient(rng),
        bgr: rng.coin(),
        invert: rng.coin(),
        refresh: rng.below(4) as u8,
        rst: rng.coin(),
        init_levels: rng.below(8) as u8,
        clock_all_methods: rng.coin(),
        latch_partial: rng.coin(),
        by_ref: !transport.pin_level() && rng.chance(1, 3),
                builder_order: if rng.chance(1, 3) { rng.below(720) as u16 | ((rng.below(2) as u16) << 15) } else { 0 },
                zst_rst: rng.chance(1, 3),
                bus_from: rng.chance(1, 3),
    }
}

const ALL_DRAW: [u32; 6] = [3, 3, 4, 3, 3, 1];

fn mk_case(prop: &str, seed: u64, config: Config, program: Vec<Op>) -> Case {
    Case { property: prop.to_string(), seed, config, program, faults: Vec::new(), mode: String::new() }
}

fn giant_trace_program(rng: &mut Rng, cfg: &Config) -> Vec<Op> {
    // full-size window on a giant framebuffer at Interface level: fills are O(1)
    let (lw, lh) = cfg.logical_size();
    let mut p = Vec::new();
    let n = 2 + rng.below(8);
    for _ in 0..n {
        match rng.below(5) {
            0 => p.push(Op::Clear { c: gen_colour(rng) }),
            1 if rng.chance(1, 3) && lw as u64 * lh as u64 > 70_000 => {
                // pixel counts around 2^16 / 2^24 / 2^31
                let target: u64 = *rng.pick(&[65_535u64, 65_536, 65_537, 1 << 24, (1 << 24) + 1, (1u64 << 31) - 1, 1 << 31, (1u64 << 31) + 1]);
                let target = target.min(lw as u64 * lh as u64);
                let w = (*rng.pick(&[1u64, 2, 255, 256, 257, 65_535])).min(lw as u64).min(target).max(1);
                let h = (target / w).max(1).min(lh as u64);
                p.push(Op::FillSolid { rect: Rect { x: 0, y: 0, w: w as u32, h: h as u32 }, c: gen_colour(rng) });
            }
            1 => {
                let w = 1 + rng.below(lw as u64) as u32;
                let h = 1 + rng.below(lh as u64) as u32;
                let x = rng.below((lw - w) as u64 + 1) as i32;
                let y = rng.below((lh - h) as u64 + 1) as i32;
                p.push(Op::FillSolid { rect: Rect { x, y, w, h }, c: gen_colour(rng) });
            }
            2 => {
                let rx = rng.below(lw as u64) as u32;
                let ry = rng.below(lh as u64) as u32;
                let x = *rng.pick(&[0u32, lw - 1, lw / 2, rx]);
                let y = *rng.pick(&[0u32, lh - 1, lh / 2, ry]);
                p.push(Op::SetPixel { x: x as u16, y: y as u16, c: gen_colour(rng) });
            }
            3 => p.push(Op::DrawIter { pixels: gen_stream(rng, lw, lh, 300, Oob::None) }),
            _ => {
                let rect = gen_rect_inside(rng, lw, lh, 3000);
                let colors = gen_colors_for(rng, &rect, lw, lh, true);
                p.push(Op::FillContiguous { rect, colors });
            }
        }
    }
    p
}

fn is_giant(m: ModelId) -> bool {
    let (w, h) = m.fb();
    w as u64 * h as u64 > (1 << 21)
}

pub fn run_index(prop: &str, idx: u64, vseed: u64, tier: Tier) -> RunResult {
    let seed = run_seed(vseed, prop, idx);
    let mut rng = Rng::new(seed);
    let mut r = empty_result(idx);
    let mut one = |r: &mut RunResult, rc: ReplayCase| {
        let key = class_key(&rc);
        let j = judge(&rc);
        absorb(r, rc, j, key);
    };
    match prop {
        "C01" => {
            let o = CfgOpts::default();
            let mut cfg = gen_config(&mut rng, &o);
            let program;
            if is_giant(cfg.model) && rng.chance(1, 3) {
                // full-size window on the giant framebuffer, Interface level
                cfg.transport = Transport::Trace(*rng.pick(&[Kind::Serial, Kind::P8, Kind::P16]));
                let (fw, fh) = cfg.model.fb();
                cfg.w = fw;
                cfg.h = fh;
                cfg.ox = 0;
                cfg.oy = 0;
                program = giant_trace_program(&mut rng, &cfg);
            } else {
                let po = ProgOpts { other_pct: if rng.chance(1, 4) { 12 } else { 0 }, min_ops: 1, max_ops: 30, weights: ALL_DRAW, oob: Oob::None, rect_any: false };
                let mut p = gen_draw_program(&mut rng, &cfg, cfg.orient, &po);
                if rng.chance(1, 8) {
                    // restart in the middle: new window / orientation / options, memory survives
                    let po2 = ProgOpts { other_pct: 0, min_ops: 1, max_ops: 10, ..po.clone() };
                    p.truncate(8);
                    let re = gen_reinit(&mut rng, &cfg);
                    let cfg2 = cfg.after_reinit(&re);
                    p.push(re);
                    p.extend(gen_draw_program(&mut rng, &cfg2, cfg2.orient, &po2));
                }
                program = p;
            }
            one(&mut r, ReplayCase::Display(mk_case(prop, seed, cfg, program)));
        }
        "C02" => {
            let cfg = gen_config(&mut rng, &CfgOpts::default());
            let program = gen_draw_program(&mut rng, &cfg, cfg.orient, &ProgOpts { other_pct: 0, min_ops: 1, max_ops: 12, weights: [0, 0, 5, 3, 3, 1], oob: Oob::Full, rect_any: true });
            one(&mut r, ReplayCase::Display(mk_case(prop, seed, cfg, program)));
        }
        "C03" => {
            let giant = rng.chance(1, 10);
            let cfg = gen_config(&mut rng, &CfgOpts { giant, ..CfgOpts::default() });
            let program = gen_draw_program(&mut rng, &cfg, cfg.orient, &ProgOpts { other_pct: 0, min_ops: 1, max_ops: 4, weights: [0, 0, 1, 0, 0, 0], oob: Oob::None, rect_any: false });
            one(&mut r, ReplayCase::Display(mk_case(prop, seed, cfg, program)));
        }
        "C04" => {
            let cfg = gen_config(&mut rng, &CfgOpts::default());
            let program = gen_draw_program(&mut rng, &cfg, cfg.orient, &ProgOpts { other_pct: 0, min_ops: 1, max_ops: 10, weights: [0, 0, 0, 1, 0, 0], oob: Oob::None, rect_any: true });
            one(&mut r, ReplayCase::Display(mk_case(prop, seed, cfg, program)));
        }
        "C05" => {
            if idx < C05_EXHAUSTIVE_RUNS {
                // exhaustive over colour values: pairing, chunk
                let mut left = idx;
                let mut pair = 0usize;
                loop {
                    let space = C05_PAIRS[pair].0.colour_space() as u64 / C05_CHUNK as u64;
                    if left < space {
                        break;
                    }
                    left -= space;
                    pair += 1;
                }
                let (model, tsel) = C05_PAIRS[pair];
                let transport = transport_of(tsel, &mut rng, model);
                let cfg = base_config(&mut rng, model, transport, 32, 64);
                let cfg = Config { orient: Orient { rot: 0, mirrored: false }, ..cfg };
                let v0 = left as u32 * C05_CHUNK;
                let list: Vec<u32> = (0..C05_CHUNK).map(|k| v0 + k).collect();
                let mut program = vec![Op::SetPixels { sx: 0, sy: 0, ex: 31, ey: 31, colors: Colors::List(list.clone()) }];
                for (k, &c) in list.iter().enumerate() {
                    let (x, y) = ((k % 32) as i32, 32 + (k / 32) as i32);
                    program.push(Op::FillSolid { rect: Rect { x, y, w: 1, h: 1 }, c });
                    if k % 16 == 0 && x + 3 <= 32 {
                        program.push(Op::FillSolid { rect: Rect { x, y, w: 3, h: 1 }, c });
                    }
                }
                // the stream path once more through fill_contiguous
                program.push(Op::FillContiguous { rect: Rect { x: 0, y: 0, w: 32, h: 32 }, colors: Colors::List(list) });
                one(&mut r, ReplayCase::Display(mk_case(prop, seed, cfg, program)));
            } else {
                // every built-in model x each interface kind it supports, after its own init
                let k = idx - C05_EXHAUSTIVE_RUNS;
                let model = BUILTIN_MODELS[(k % 14) as usize];
                let tsel = ((k / 14) % 3) as u8;
                let transport = transport_of(tsel, &mut rng, model);
                if !crate::dut::pairing_compiles(model, transport) || !crate::dut::supported_today(model, transport.kind()) {
                    return r;
                }
                if tsel == 0 && rng.chance(1, 12) {
                    // a whole-screen solid fill through a full-frame staging buffer must encode
                    // like the stream, too (tens of thousands of pixels per transfer)
                    let (fw, fh) = model.fb();
                    let bpp: u32 = if model.rgb666() { 3 } else { 2 };
                    let buf = *rng.pick(&[fw as u32 * fh as u32 * bpp, 131_072, 196_608, 65_536, 65_535, 70_001]);
                    let mut cfg = base_config(&mut rng, model, Transport::Spi { buf }, fw, fh);
                    cfg.ox = 0;
                    cfg.oy = 0;
                    let c1 = gen_colour(&mut rng);
                    let c2 = gen_colour(&mut rng);
                    let (lw, lh) = cfg.logical_size();
                    let program = vec![
                        Op::Clear { c: c1 },
                        Op::FillSolid { rect: Rect { x: 0, y: 0, w: lw, h: (lh / 2).max(1) }, c: c2 },
                        Op::SetPixels { sx: 0, sy: 0, ex: (lw - 1) as u16, ey: 0, colors: Colors::List(vec![c1; lw as usize]) },
                    ];
                    one(&mut r, ReplayCase::Display(mk_case(prop, seed, cfg, program)));
                    return r;
                }
                let cfg = base_config(&mut rng, model, transport, 24, 24);
                let (lw, lh) = cfg.logical_size();
                let space = model.colour_space();
                let mut cols: Vec<u32> = vec![0, space - 1, 1, space >> 1, (space >> 1) - 1, 0x5555_5555 & (space - 1), 0xAAAA_AAAA & (space - 1), 0x00FF_00FF & (space - 1)];
                while cols.len() < 64 {
                    cols.push(rng.below(space as u64) as u32);
                }
                let mut program = vec![Op::SetPixels { sx: 0, sy: 0, ex: (lw - 1) as u16, ey: 1, colors: Colors::List(cols[..(2 * lw as usize).min(64)].to_vec()) }];
                for (i, &c) in cols.iter().enumerate().take(24) {
                    program.push(Op::FillSolid { rect: Rect { x: (i as u32 % lw) as i32, y: (3 + i as u32 / lw).min(lh - 1) as i32, w: 1, h: 1 }, c });
                }
                // a solid fill right after a stream that left the same colour at both ends of
                // the transport's staging area must still encode like the stream
                for k in [3u32, 4, 5, 8] {
                    if k <= lw && lh > 8 {
                        let x = cols[rng.below(8) as usize + 8];
                        let y = cols[rng.below(8) as usize + 16];
                        let mut row = vec![y; k as usize];
                        row[0] = x;
                        row[k as usize - 1] = x;
                        program.push(Op::SetPixels { sx: 0, sy: 6, ex: (k - 1) as u16, ey: 6, colors: Colors::List(row) });
                        program.push(Op::FillSolid { rect: Rect { x: 0, y: 7, w: k, h: 1 }, c: x });
                    }
                }
                // the same fill again after a long and then a short stream: whatever the transport
                // keeps of the first fill must not survive the streams in part
                if lw >= 6 && lh > 11 {
                    let x = cols[rng.below(8) as usize + 8];
                    let y = cols[rng.below(8) as usize + 16];
                    let k = 4 + rng.below(3) as u32;
                    program.push(Op::FillSolid { rect: Rect { x: 0, y: 8, w: k, h: 1 }, c: x });
                    program.push(Op::SetPixels { sx: 0, sy: 9, ex: (k - 1) as u16, ey: 9, colors: Colors::List(vec![y; k as usize]) });
                    program.push(Op::SetPixel { x: 0, y: 10, c: y });
                    program.push(Op::FillSolid { rect: Rect { x: 0, y: 8, w: k, h: 1 }, c: x });
                }
                one(&mut r, ReplayCase::Display(mk_case(prop, seed, cfg, program)));
            }
        }
        "C06" | "C07" if crate::xport::directed_case(prop, idx, tier == Tier::Thorough).is_some() => {
            // directed giant-count scenarios on lean counting stubs
            let c = crate::xport::directed_case(prop, idx, tier == Tier::Thorough).unwrap();
            one(&mut r, ReplayCase::Xport(c));
        }
        "C06" | "C07" => {
            let with_faults = prop == "C07" && rng.chance(1, 2);
            let mut c = gen_xcase(&mut rng, prop, seed, false, tier == Tier::Thorough);
            if with_faults {
                // bus level and interface level: pin failures inside calls, then continued use
                let mut rng2 = Rng::new(seed ^ 0xF00D);
                c = gen_xcase(&mut rng2, prop, seed, true, tier == Tier::Thorough);
            }
            one(&mut r, ReplayCase::Xport(c));
        }
        "C08" => {
            let cfg = gen_config(&mut rng, &CfgOpts::default());
            let style = rng.below(4);
            let mut program = Vec::new();
            let mut orient = cfg.orient;
            let segs = 1 + rng.below(3);
            let mut cfg_now = cfg.clone();
            for s in 0..segs {
                if s > 0 {
                    if rng.chance(1, 4) {
                        let re = gen_reinit(&mut rng, &cfg_now);
                        cfg_now = cfg_now.after_reinit(&re);
                        orient = cfg_now.orient;
                        program.push(re);
                    } else {
                        orient = gen_orient(&mut rng);
                        program.push(Op::SetOrientation { o: orient });
                    }
                }
                let po = match style {
                    0 => ProgOpts { other_pct: 0, min_ops: 1, max_ops: 10, weights: ALL_DRAW, oob: Oob::None, rect_any: false },
                    1 => ProgOpts { other_pct: 0, min_ops: 1, max_ops: 8, weights: [0, 0, 5, 3, 3, 1], oob: Oob::Full, rect_any: true },
                    2 => ProgOpts { other_pct: 0, min_ops: 1, max_ops: 6, weights: [0, 0, 1, 0, 0, 0], oob: Oob::Negative, rect_any: false },
                    _ => ProgOpts { other_pct: 0, min_ops: 1, max_ops: 8, weights: [1, 2, 2, 4, 2, 1], oob: Oob::None, rect_any: true },
                };
                program.extend(gen_draw_program(&mut rng, &cfg_now, orient, &po));
            }
            one(&mut r, ReplayCase::Display(mk_case(prop, seed, cfg, program)));
        }
        "C09" => {
            let cfg = if idx < 8192 {
                // small scope exhaustively: every (w,h,ox,oy) in {0..7}^4 on 3x5 and 5x3
                let model = if idx < 4096 { ModelId::Sim3x5 } else { ModelId::Sim5x3 };
                let k = idx % 4096;
                let mut c = base_config(&mut rng, model, Transport::Trace(Kind::Serial), 1, 1);
                c.w = (k & 7) as u16;
                c.h = ((k >> 3) & 7) as u16;
                c.ox = ((k >> 6) & 7) as u16;
                c.oy = ((k >> 9) & 7) as u16;
                c
            } else {
                let model = match rng.below(10) {
                    0 => ModelId::Sim1x1,
                    1 => ModelId::Sim1x65535,
                    2 => ModelId::Sim65535x1,
                    3 => ModelId::Sim65535x65535,
                    4 => ModelId::Sim255x257,
                    5 => ModelId::Sim46341x46342,
                    _ => *rng.pick(&BUILTIN_MODELS),
                };
                let (fw, fh) = model.fb();
                let level = if rng.chance(1, 12) { Level::Pin } else { Level::Trace };
                let mut transport;
                loop {
                    transport = gen_transport(&mut rng, level, model);
                    if !model.builtin() || crate::dut::supported_today(model, transport.kind()) {
                        break;
                    }
                }
                let mut c = base_config(&mut rng, model, transport, 1, 1);
                let pick = |rng: &mut Rng, f: u16, other: u16| -> u16 {
                    let f = f as i64;
                    let o = other as i64;
                    let v: i64 = match rng.below(14) {
                        0 => 0,
                        1 => 1,
                        2 => 2,
                        3 => f - 1,
                        4 => f,
                        5 => f + 1,
                        6 => f - o,
                        7 => f - o + 1,
                        8 => f - o - 1,
                        9 => *rng.pick(&[32767i64, 32768, 65534, 65535]),
                        10 => 65536 - o,
                        _ => rng.below(65536) as i64,
                    };
                    v.clamp(0, 65535) as u16
                };
                // pick sizes and offsets each relative to the other
                c.w = pick(&mut rng, fw, 0);
                c.h = pick(&mut rng, fh, 0);
                c.ox = pick(&mut rng, fw, c.w);
                c.oy = pick(&mut rng, fh, c.h);
                if rng.coin() {
                    c.w = pick(&mut rng, fw, c.ox);
                }
                if rng.coin() {
                    c.h = pick(&mut rng, fh, c.oy);
                }
                if rng.chance(1, 3) {
                    c.ox = 0;
                }
                if rng.chance(1, 3) {
                    c.oy = 0;
                }
                if rng.chance(1, 8) {
                    // a square window at equal offsets: both axes get the same numbers but
                    // must be judged against their own framebuffer extent
                    if rng.coin() {
                        c.h = c.w;
                        c.oy = c.ox;
                    } else {
                        c.w = c.h;
                        c.ox = c.oy;
                    }
                }
                c
            };
            one(&mut r, ReplayCase::Display(mk_case(prop, seed, cfg, Vec::new())));
        }
        "C10" => {
            let giant = rng.chance(1, 8);
            let cfg = gen_config(&mut rng, &CfgOpts { giant, ..CfgOpts::default() });
            let mut program = Vec::new();
            let mut orient = cfg.orient;
            let n_so = 1 + rng.below(6);
            for _ in 0..n_so {
                if rng.chance(1, 2) {
                    program.extend(gen_draw_program(&mut rng, &cfg, orient, &ProgOpts { other_pct: 0, min_ops: 1, max_ops: 3, weights: ALL_DRAW, oob: Oob::None, rect_any: false }));
                }
                orient = if rng.chance(1, 8) { orient } else { gen_orient(&mut rng) };
                program.push(Op::SetOrientation { o: orient });
            }
            let po = if rng.coin() {
                ProgOpts { other_pct: if rng.chance(1, 4) { 15 } else { 0 }, min_ops: 1, max_ops: 8, weights: ALL_DRAW, oob: Oob::None, rect_any: false }
            } else {
                ProgOpts { other_pct: 0, min_ops: 1, max_ops: 8, weights: [0, 0, 5, 3, 3, 1], oob: Oob::Full, rect_any: true }
            };
            program.extend(gen_draw_program(&mut rng, &cfg, orient, &po));
            let mut case = mk_case(prop, seed, cfg, program);
            if rng.chance(1, 5) {
                // "after any sequence of successful set_orientation calls": a failed call in
                // between (retried by the client) must not change what the successful ones do
                let dry = exec_case(&case, &ExecOpt::default());
                if dry.violation.is_none() && dry.skipped.is_none() && dry.harness_error.is_none() {
                    let ranges: Vec<(u64, u64)> = dry
                        .op_llops
                        .iter()
                        .zip(case.program.iter())
                        .filter(|(_, op)| matches!(op, Op::SetOrientation { .. }))
                        .map(|(r, _)| *r)
                        .collect();
                    let nf = 1 + rng.below(2);
                    case.faults = gen_faults(&mut rng, case.config.transport, &ranges, nf);
                    // the retrying client: an even case seed (see exec: odd seeds do not retry)
                    case.seed &= !1;
                }
            }
            one(&mut r, ReplayCase::Display(case));
        }
        "C11" => {
            let cfg = if idx < 10_752 {
                // complete enumeration of the option combinations at Interface level
                let mut k = idx;
                let mut take = |n: u64| {
                    let v = k % n;
                    k /= n;
                    v
                };
                let model = BUILTIN_MODELS[take(14) as usize];
                let kind = [Kind::Serial, Kind::P8, Kind::P16][take(3) as usize];
                let bgr = take(2) == 1;
                let o = take(8);
                let invert = take(2) == 1;
                let refresh = take(4) as u8;
                let rst = take(2) == 1;
                let (fw, fh) = model.fb();
                Config {
                    model,
                    transport: Transport::Trace(kind),
                    w: fw,
                    h: fh,
                    ox: 0,
                    oy: 0,
                    orient: Orient { rot: (o & 3) as u8, mirrored: o >= 4 },
                    bgr,
                    invert,
                    refresh,
                    rst,
                    init_levels: rng.below(8) as u8,
                    clock_all_methods: rng.coin(),
                    latch_partial: rng.coin(),
                    by_ref: rng.chance(1, 3),
                    builder_order: if rng.chance(1, 3) { rng.below(720) as u16 | ((rng.below(2) as u16) << 15) } else { 0 },
                zst_rst: rng.chance(1, 3),
                bus_from: rng.chance(1, 3),
                }
            } else {
                let model = *rng.pick(&BUILTIN_MODELS);
                let lvl = if rng.chance(2, 3) { Level::Pin } else { Level::Trace };
                let transport = gen_transport(&mut rng, lvl, model);
                let (fw, fh) = model.fb();
                let (w, h, ox, oy) = gen_window(&mut rng, fw, fh, &CfgOpts { full_window_pct: 30, max_window: 400, ..CfgOpts::default() }, true);
                let mut c = base_config(&mut rng, model, transport, w, h);
                c.ox = ox;
                c.oy = oy;
                if rng.chance(1, 4) {
                    // a panel geometry people really build, on any interface kind
                    let (m, w, h, ox, oy) = *rng.pick(&REAL_PANELS);
                    let t = gen_transport(&mut rng, lvl, m);
                    let mut c2 = base_config(&mut rng, m, t, w, h);
                    c2.ox = ox;
                    c2.oy = oy;
                    c = c2;
                }
                c
            };
            if !crate::dut::pairing_compiles(cfg.model, cfg.transport) {
                return r;
            }
            let mut program = Vec::new();
            if idx >= 10_752 && rng.chance(1, 4) && crate::dut::supported_today(cfg.model, cfg.transport.kind()) {
                // the same contract for a second initialisation of the same hardware
                program.push(gen_reinit(&mut rng, &cfg));
            }
            one(&mut r, ReplayCase::Display(mk_case(prop, seed, cfg, program)));
        }
        "C12" => run_c12(&mut r, prop, idx, seed, &mut rng, tier),
        "C13" => {
            let cfg = gen_config(&mut rng, &CfgOpts { giant: false, ..CfgOpts::default() });
            let n = 5 + rng.below(36);
            let mut program = Vec::new();
            let mut orient = cfg.orient;
            let sleepy = rng.chance(1, 2);
            let mut cfg_now = cfg.clone();
            for _ in 0..n {
                let w: [u32; 7] = if sleepy { [12, 12, 4, 2, 2, 2, 1] } else { [4, 4, 8, 2, 2, 2, 1] };
                match rng.weighted(&w) {
                    0 => program.push(Op::Sleep),
                    1 => program.push(Op::Wake),
                    6 => {
                        // restart: is_sleeping() must be false again, whatever it was
                        let re = gen_reinit(&mut rng, &cfg_now);
                        cfg_now = cfg_now.after_reinit(&re);
                        orient = cfg_now.orient;
                        program.push(re);
                    }
                    2 => program.extend(gen_draw_program(&mut rng, &cfg_now, orient, &ProgOpts { other_pct: 0, min_ops: 1, max_ops: 1, weights: ALL_DRAW, oob: Oob::None, rect_any: false })),
                    3 => {
                        orient = gen_orient(&mut rng);
                        program.push(Op::SetOrientation { o: orient });
                    }
                    4 => program.push(if rng.coin() { Op::ScrollOffset { offset: rng.below(65536) as u16 } } else { Op::ScrollRegion { top: rng.below(40) as u16, bottom: rng.below(40) as u16 } }),
                    _ => program.push(Op::Tearing { te: rng.below(3) as u8 }),
                }
            }
            let mut case = mk_case(prop, seed, cfg, program);
            if rng.chance(1, 4) {
                // fault sub-mode: failed sleep/wake leaves the flag alone ("last successful")
                let dry = exec_case(&case, &ExecOpt::default());
                let ranges: Vec<(u64, u64)> = dry
                    .op_llops
                    .iter()
                    .zip(case.program.iter())
                    .filter(|(_, op)| matches!(op, Op::Sleep | Op::Wake))
                    .map(|(r, _)| *r)
                    .collect();
                if dry.violation.is_none() && dry.skipped.is_none() && !ranges.is_empty() {
                    let nf = 1 + rng.below(2);
                    case.faults = gen_faults(&mut rng, case.config.transport, &ranges, nf);
                }
            }
            one(&mut r, ReplayCase::Display(case));
        }
        "C16" => {
            let model = match rng.below(4) {
                0 => *rng.pick(&[ModelId::Sim1x1, ModelId::Sim65535x1, ModelId::Sim1x65535, ModelId::Sim65535x65535, ModelId::Sim255x257]),
                _ => *rng.pick(&BUILTIN_MODELS),
            };
            let mut transport;
            loop {
                transport = gen_transport(&mut rng, Level::Any, model);
                if !model.builtin() || crate::dut::supported_today(model, transport.kind()) {
                    break;
                }
            }
            let (fw, fh) = model.fb();
            let (w, h, ox, oy) = gen_window(&mut rng, fw, fh, &CfgOpts::default(), false);
            let mut cfg = base_config(&mut rng, model, transport, w, h);
            cfg.ox = ox;
            cfg.oy = oy;
            let n = 1 + rng.below(8);
            let mut program = Vec::new();
            let pick = |rng: &mut Rng, other: u16| -> u16 {
                let hh = fh as i64;
                let o = other as i64;
                let v: i64 = match rng.below(14) {
                    0 => 0,
                    1 => 1,
                    2 => hh - 1,
                    3 => hh,
                    4 => hh + 1,
                    5 => hh - o,
                    6 => hh - o + 1,
                    7 => *rng.pick(&[32767i64, 32768, 65534, 65535]),
                    8 => 65535 - o,
                    9 => 65536 - o,
                    10 => 65537 - o,
                    _ => rng.below(65536) as i64,
                };
                v.clamp(0, 65535) as u16
            };
            for _ in 0..n {
                match rng.below(5) {
                    0 | 1 | 2 => {
                        let a = pick(&mut rng, 0);
                        let b = pick(&mut rng, a);
                        let (top, bottom) = if rng.coin() { (a, b) } else { (b, a) };
                        program.push(Op::ScrollRegion { top, bottom });
                    }
                    3 => {
                        let o = match rng.below(4) {
                            0 => *rng.pick(&[0u16, 1, 255, 256, 0x0102, 0xFF00, 0x00FF, 65535]),
                            _ => rng.below(65536) as u16,
                        };
                        program.push(Op::ScrollOffset { offset: o });
                    }
                    _ => program.extend(gen_draw_program(&mut rng, &cfg, cfg.orient, &ProgOpts { other_pct: 0, min_ops: 1, max_ops: 1, weights: ALL_DRAW, oob: Oob::None, rect_any: false })),
                }
            }
            one(&mut r, ReplayCase::Display(mk_case(prop, seed, cfg, program)));
        }
        "C17" => {
            let model = BUILTIN_MODELS[(idx % 14) as usize];
            let tsel = ((idx / 14) % 3) as u8;
            let transport = transport_of(tsel, &mut rng, model);
            if !crate::dut::pairing_compiles(model, transport) || !crate::dut::supported_today(model, transport.kind()) {
                return r;
            }
            let (fw, fh) = model.fb();
            let (w, h, ox, oy) = gen_window(&mut rng, fw, fh, &CfgOpts { full_window_pct: 30, max_window: 400, ..CfgOpts::default() }, true);
            let mut cfg = base_config(&mut rng, model, transport, w, h);
            cfg.ox = ox;
            cfg.oy = oy;
            cfg.rst = (idx / 42) % 2 == 0;
            let mut program = Vec::new();
            if rng.chance(2, 5) {
                // the same pattern must hold when the hardware has been used before
                let mut cfg_now = cfg.clone();
                for _ in 0..1 + rng.below(2) {
                    let small = Config { w: cfg_now.w.min(24), h: cfg_now.h.min(24), ..cfg_now.clone() };
                    let _ = small;
                    if cfg_now.w as u32 * cfg_now.h as u32 <= 4096 {
                        program.extend(gen_draw_program(&mut rng, &cfg_now, cfg_now.orient, &ProgOpts { other_pct: 0, min_ops: 1, max_ops: 3, weights: [3, 2, 2, 2, 2, 0], oob: Oob::None, rect_any: false }));
                    }
                    let re = gen_reinit(&mut rng, &cfg_now);
                    cfg_now = cfg_now.after_reinit(&re);
                    program.push(re);
                }
            }
            let mut case = mk_case(prop, seed, cfg, program);
            if case.program.len() > 1 && rng.chance(1, 3) {
                // an earlier call of the history fails; the later restart must still begin with
                // a proper reset as the controller sees it
                let dry = exec_case(&case, &ExecOpt::default());
                if dry.violation.is_none() && dry.skipped.is_none() && dry.harness_error.is_none() {
                    let first_re = case.program.iter().position(|o| matches!(o, Op::Reinit { .. })).unwrap_or(0);
                    let ranges: Vec<(u64, u64)> = dry.op_llops.iter().take(first_re).copied().collect();
                    case.faults = gen_faults(&mut rng, case.config.transport, &ranges, 1);
                }
            } else if rng.chance(1, 6) {
                // a failing operation inside the reset itself: if init claims success all the
                // same, the reset pattern must still hold (reset line released / exactly one
                // software reset)
                let kinds = fault_kinds(case.config.transport);
                let kind = *rng.pick(&kinds);
                let span = if case.config.rst { 2 } else { 5 };
                case.faults = vec![Fault { llop: rng.below(span), kind }];
                case.program.clear();
            }
            one(&mut r, ReplayCase::Display(case));
        }
        "C19" => run_c19(&mut r, prop, idx, seed, &mut rng, tier),
        "C20" => {
            let cfg = gen_config(&mut rng, &CfgOpts { giant: false, max_window: 160, ..CfgOpts::default() });
            let style = rng.below(3);
            let po = match style {
                0 => ProgOpts { other_pct: 0, min_ops: 1, max_ops: 8, weights: [0, 0, 1, 0, 0, 0], oob: Oob::None, rect_any: false },
                1 => ProgOpts { other_pct: 0, min_ops: 1, max_ops: 8, weights: [0, 0, 2, 2, 2, 1], oob: Oob::None, rect_any: true },
                _ => ProgOpts { other_pct: 0, min_ops: 1, max_ops: 8, weights: [0, 0, 3, 1, 1, 1], oob: Oob::None, rect_any: false },
            };
            let program = gen_draw_program(&mut rng, &cfg, cfg.orient, &po);
            one(&mut r, ReplayCase::Display(mk_case(prop, seed, cfg, program)));
        }
        _ => r.harness_error = Some(format!("no workload for property {}", prop)),
    }
    r
}

/// C12: (a) complete fault enumeration for a sampled (configuration, call);
/// (b) mixed histories with a few faults and the exact oracle after recovery.
fn run_c12(r: &mut RunResult, prop: &str, idx: u64, seed: u64, rng: &mut Rng, tier: Tier) {
    let enumerate = idx % 4 != 3;
    if !enumerate {
        // (b) mixed history: many short runs
        let n = if tier == Tier::Quick { 150 } else { 400 };
        for sub in 0..n {
            let s2 = splitmix64(seed ^ sub);
            let mut rg = Rng::new(s2);
            let cfg = gen_config(&mut rg, &CfgOpts { giant: false, ..CfgOpts::default() });
            let mut program = Vec::new();
            let mut orient = cfg.orient;
            let n_ops = 3 + rg.below(12);
            for _ in 0..n_ops {
                match rg.weighted(&[10, 2, 1, 1, 1, 1]) {
                    0 => program.extend(gen_draw_program(&mut rg, &cfg, orient, &ProgOpts { other_pct: 0, min_ops: 1, max_ops: 1, weights: ALL_DRAW, oob: Oob::None, rect_any: false })),
                    1 => {
                        orient = gen_orient(&mut rg);
                        program.push(Op::SetOrientation { o: orient });
                    }
                    2 => program.push(Op::Sleep),
                    3 => program.push(Op::Wake),
                    4 => program.push(Op::ScrollRegion { top: rg.below(50) as u16, bottom: rg.below(50) as u16 }),
                    _ => program.push(Op::Tearing { te: rg.below(3) as u8 }),
                }
            }
            let mut case = mk_case(prop, s2, cfg, program);
            case.mode = "history".into();
            let dry = exec_case(&case, &ExecOpt::default());
            r.evals += 1;
            if dry.violation.is_some() || dry.skipped.is_some() || dry.harness_error.is_some() {
                r.skipped += 1;
                continue;
            }
            let nf = rg.below(4);
            case.faults = gen_faults(&mut rg, case.config.transport, &dry.op_llops, nf);
            if rg.chance(1, 4) {
                // aim one more fault at a pixel stream that directly follows a solid fill (the
                // shape "A, B fails, A again" below needs a fault exactly there)
                let cands: Vec<usize> = (1..case.program.len())
                    .filter(|&j| {
                        matches!(case.program[j - 1], Op::FillSolid { .. } | Op::Clear { .. })
                            && matches!(case.program[j], Op::SetPixel { .. } | Op::SetPixels { .. } | Op::FillContiguous { .. } | Op::DrawIter { .. })
                            && dry.op_llops.get(j).map_or(false, |r| r.1 > r.0)
                    })
                    .collect();
                if !cands.is_empty() {
                    let j = *rg.pick(&cands);
                    for f in gen_faults(&mut rg, case.config.transport, &[dry.op_llops[j]], 1) {
                        if !case.faults.iter().any(|g| g.llop == f.llop) {
                            case.faults.push(f);
                        }
                    }
                    case.faults.sort_by_key(|f| f.llop);
                }
            }
            // a client that does not retry at once may well issue the same call again a little
            // later: repeat a faulted non-drawing call one or two calls further on
            let mut inserts: Vec<(usize, Op)> = Vec::new();
            for f in &case.faults {
                if let Some(j) = dry.op_llops.iter().position(|r| f.llop >= r.0 && f.llop < r.1) {
                    if !case.program[j].is_drawing() && !matches!(case.program[j], Op::Reinit { .. }) && rg.coin() {
                        let at = (j + 1 + rg.below(2) as usize + 1).min(case.program.len());
                        // the repeated call must leave the state the rest of the program was
                        // written for: nothing that changes the geometry in between
                        let clean = !case.program[j + 1..at].iter().any(|o| matches!(o, Op::SetOrientation { .. } | Op::Reinit { .. }));
                        if clean {
                            inserts.push((at, case.program[j].clone()));
                        }
                    }
                }
            }
            // "A, B fails, A again": state that A left behind and B's failure did not clean up.
            // When a fault hits a drawing call that follows a solid fill, let the failing call
            // start with the fill's colour and repeat the fill right after it.
            let mut post: Vec<(usize, Op)> = Vec::new();
            for f in &case.faults {
                if let Some(j) = dry.op_llops.iter().position(|r| f.llop >= r.0 && f.llop < r.1) {
                    if j == 0 || !rg.coin() {
                        continue;
                    }
                    let fill = match &case.program[j - 1] {
                        Op::FillSolid { c, .. } | Op::Clear { c } => Some(*c),
                        _ => None,
                    };
                    if let Some(c0) = fill {
                        let same_shape = match &mut case.program[j] {
                            Op::SetPixel { c, .. } => {
                                *c = c0;
                                true
                            }
                            Op::SetPixels { colors: Colors::List(l), .. } | Op::FillContiguous { colors: Colors::List(l), .. } if !l.is_empty() => {
                                l[0] = c0;
                                true
                            }
                            Op::DrawIter { pixels } if !pixels.is_empty() => {
                                pixels[0].2 = c0;
                                true
                            }
                            _ => false,
                        };
                        if same_shape {
                            post.push((j + 1, case.program[j - 1].clone()));
                        }
                    }
                }
            }
            inserts.extend(post);
            inserts.sort_by(|a, b| b.0.cmp(&a.0));
            for (at, op) in inserts {
                case.program.insert(at, op);
            }
            let rc = ReplayCase::Display(case);
            let key = class_key(&rc);
            let j = judge(&rc);
            absorb(r, rc, j, key);
            if r.violation.is_some() {
                return;
            }
        }
        return;
    }
    // (a) enumeration: choose configuration and target call
    let target_init = idx % 4 == 0 || rng.chance(1, 4);
    let cfg = if target_init {
        // init of each model on each real transport, with and without reset pin
        let k = idx / 4;
        let model = BUILTIN_MODELS[(k % 14) as usize];
        let tsel = ((k / 14) % 3) as u8;
        let transport = transport_of(tsel, rng, model);
        if !crate::dut::pairing_compiles(model, transport) || !crate::dut::supported_today(model, transport.kind()) {
            return;
        }
        let mut c = base_config(rng, model, transport, 8, 8);
        c.rst = (k / 42) % 2 == 0;
        c
    } else {
        let lvl = if rng.chance(5, 6) { Level::Pin } else { Level::Trace };
        let mut c = gen_config(rng, &CfgOpts { real_panels: false, level: lvl, giant: false, max_window: 12, full_window_pct: 0, ..CfgOpts::default() });
        c.w = c.w.min(12);
        c.h = c.h.min(12);
        c
    };
    let mut program = Vec::new();
    let mut target_idx = 0usize;
    let mut orient = cfg.orient;
    let mut cfg_after: Option<Config> = None;
    if !target_init {
        // prefix program
        let n_pre = rng.below(3);
        for _ in 0..n_pre {
            program.extend(gen_draw_program(rng, &cfg, orient, &ProgOpts { other_pct: 0, min_ops: 1, max_ops: 1, weights: ALL_DRAW, oob: Oob::None, rect_any: false }));
        }
        target_idx = program.len();
        match rng.below(14) {
            12 | 13 => program.push(Op::TestImage), // a composite drawing call of the crate itself
            0..=5 => program.extend(gen_draw_program(rng, &cfg, orient, &ProgOpts { other_pct: 0, min_ops: 1, max_ops: 1, weights: [2, 2, 3, 2, 2, 1], oob: Oob::None, rect_any: false })),
            6 => {
                orient = gen_orient(rng);
                program.push(Op::SetOrientation { o: orient });
            }
            7 => program.push(Op::ScrollRegion { top: rng.below(40) as u16, bottom: rng.below(40) as u16 }),
            8 => program.push(Op::ScrollOffset { offset: rng.below(65536) as u16 }),
            9 => program.push(Op::Tearing { te: rng.below(3) as u8 }),
            10 => program.push(Op::Sleep),
            _ => {
                if rng.coin() {
                    program.insert(target_idx, Op::Sleep);
                    target_idx += 1;
                    program.push(Op::Wake);
                } else {
                    // a restart under faults; nothing follows a failed one (the display is consumed)
                    let re = gen_reinit(rng, &cfg);
                    let mut c2 = cfg.after_reinit(&re);
                    c2.w = c2.w.min(12);
                    c2.h = c2.h.min(12);
                    let (fw, fh) = c2.model.fb();
                    c2.ox = c2.ox.min(fw - c2.w);
                    c2.oy = c2.oy.min(fh - c2.h);
                    let re = Op::Reinit { w: c2.w, h: c2.h, ox: c2.ox, oy: c2.oy, orient: c2.orient, bgr: c2.bgr, invert: c2.invert, refresh: c2.refresh };
                    orient = c2.orient;
                    cfg_after = Some(c2);
                    program.push(re);
                }
            }
        }
    }
    // recovery: clear, then an ordinary program under the exact oracle
    let cfg_rec = cfg_after.clone().unwrap_or_else(|| cfg.clone());
    let (lw, lh) = if orient.rot % 2 == 0 { (cfg_rec.w as u32, cfg_rec.h as u32) } else { (cfg_rec.h as u32, cfg_rec.w as u32) };
    if lw as u64 * lh as u64 <= px_budget(cfg_rec.transport) {
        program.push(Op::Clear { c: gen_colour(rng) });
    }
    program.extend(gen_draw_program(rng, &cfg_rec, orient, &ProgOpts { other_pct: 0, min_ops: 1, max_ops: 3, weights: ALL_DRAW, oob: Oob::None, rect_any: false }));
    let mut base = mk_case(prop, seed, cfg, program);
    base.mode = if target_init { "enumerate:init".into() } else { format!("enumerate:{}", target_idx) };
    let dry = exec_case(&base, &ExecOpt::default());
    r.evals += 1;
    add_stats(&mut r.stats, &dry.stats);
    if dry.violation.is_some() || dry.skipped.is_some() || dry.harness_error.is_some() {
        // the fault-free run itself must be clean before faults are meaningful
        if let Some(v) = dry.violation {
            // attribute honestly: this is a fault-free failure seen by the C12 recovery oracle
            let _ = v;
        }
        r.skipped += 1;
        r.skip_reasons.push("fault-free dry run not clean".into());
        return;
    }
    let (a, b) = if target_init { dry.init_llops } else { dry.op_llops[target_idx] };
    let kinds = fault_kinds(base.config.transport);
    for k in a..b {
        for kind in &kinds {
            let kind = match kind {
                FaultKind::SpiFailTorn(_) => FaultKind::SpiFailTorn((splitmix64(seed ^ k) & 0xFFFF) as u32),
                other => *other,
            };
            let mut c = base.clone();
            c.faults = vec![Fault { llop: k, kind }];
            let rc = ReplayCase::Display(c);
            let key = class_key(&rc);
            let j = judge(&rc);
            absorb(r, rc, j, key);
            if r.violation.is_some() || r.harness_error.is_some() {
                return;
            }
        }
    }
}

fn run_c19(r: &mut RunResult, prop: &str, idx: u64, seed: u64, rng: &mut Rng, tier: Tier) {
    let lim: u64 = if tier == Tier::Quick { 48 } else { 96 };
    let mut k = idx;
    let disp_n = lim * lim;
    let plain_n = (lim + 1) * (lim + 1) * 3;
    if !cfg!(feature = "batch") {
        // the build without `batch` differs only in draw_iter, which TestImage does not use
        k += disp_n + plain_n;
    }
    if k < disp_n {
        // every window size 1..=lim through a real Display, Interface level, external model
        let w = 1 + (k % lim) as u16;
        let h = 1 + (k / lim) as u16;
        let model = if rng.chance(1, 4) { ModelId::Sim255x257 } else { ModelId::Sim2048x2048 };
        let kind = *rng.pick(&[Kind::Serial, Kind::P8, Kind::P16]);
        let mut cfg = base_config(rng, model, Transport::Trace(kind), w, h);
        if model == ModelId::Sim2048x2048 {
            // keep the window where dense comparison is possible: use the small model instead
            cfg.model = ModelId::Sim255x257;
            cfg.ox = cfg.ox.min(255 - w);
            cfg.oy = cfg.oy.min(257 - h);
        }
        let mut case = mk_case(prop, seed, cfg, vec![Op::TestImage]);
        if w >= 32 && h >= 32 && rng.chance(1, 6) {
            case.mode = "consequence".into();
        }
        let rc = ReplayCase::Display(case);
        let key = class_key(&rc);
        let j = judge(&rc);
        absorb(r, rc, j, key);
        return;
    }
    k -= disp_n;
    if k < plain_n {
        let colour = (k % 3) as u8;
        let k2 = k / 3;
        let w = (k2 % (lim + 1)) as u32;
        let h = (k2 / (lim + 1)) as u32;
        let rc = ReplayCase::Plain(PlainCase { property: prop.into(), ox: 0, oy: 0, w, h, colour });
        let key = class_key(&rc);
        let j = judge(&rc);
        absorb(r, rc, j, key);
        return;
    }
    // sampled: built-in models, pin level for small sizes, strips, larger sizes, consequences
    if tier == Tier::Thorough && rng.chance(1, 400) {
        // a strip through a real Display on a giant external model (Interface level)
        let (w, h) = if rng.coin() { (65535u16, 32 + rng.below(8) as u16) } else { (32 + rng.below(8) as u16, 65535u16) };
        let kind = *rng.pick(&[Kind::Serial, Kind::P8, Kind::P16]);
        let mut cfg = base_config(rng, ModelId::Sim65535x65535, Transport::Trace(kind), w, h);
        cfg.ox = cfg.ox.min(65535 - w);
        cfg.oy = cfg.oy.min(65535 - h);
        let rc = ReplayCase::Display(mk_case(prop, seed, cfg, vec![Op::TestImage]));
        let key = class_key(&rc);
        let j = judge(&rc);
        absorb(r, rc, j, key);
        return;
    }
    match rng.below(6) {
        0 => {
            let w = *rng.pick(&[0u32, 1, 31, 32, 33, 97, 128, 255, 256, 500, 1000, 2048]);
            let h = *rng.pick(&[0u32, 1, 31, 32, 33, 97, 128, 255, 256, 500, 1000, 2048]);
            let (w, h) = if rng.chance(1, 10) { (if rng.coin() { 65535 } else { 33 }, if rng.coin() { 33 } else { 40 }) } else { (w, h) };
            // a draw target need not start at the origin
            let (ox, oy) = if rng.coin() { (0, 0) } else { (rng.range(-300, 300) as i32, rng.range(-300, 300) as i32) };
            let rc = ReplayCase::Plain(PlainCase { property: prop.into(), ox, oy, w, h, colour: rng.below(3) as u8 });
            let key = class_key(&rc);
            let j = judge(&rc);
            absorb(r, rc, j, key);
        }
        1 | 2 => {
            // pin level, sizes <= 48
            let model = *rng.pick(&BUILTIN_MODELS);
            let mut transport;
            loop {
                transport = gen_transport(rng, Level::Pin, model);
                if crate::dut::supported_today(model, transport.kind()) {
                    break;
                }
            }
            // at least 32 x 32 most of the time: that is where the picture clauses apply
            let dim = |rng: &mut Rng| if rng.chance(2, 3) { 32 + rng.below(17) as u16 } else { 1 + rng.below(48) as u16 };
            let w = dim(rng);
            let h = dim(rng);
            let cfg = base_config(rng, model, transport, w, h);
            let rc = ReplayCase::Display(mk_case(prop, seed, cfg, vec![Op::TestImage]));
            let key = class_key(&rc);
            let j = judge(&rc);
            absorb(r, rc, j, key);
        }
        _ => {
            // consequence clause on a real model at Interface level
            let model = *rng.pick(&BUILTIN_MODELS);
            let mut transport;
            loop {
                transport = gen_transport(rng, Level::Trace, model);
                if crate::dut::supported_today(model, transport.kind()) {
                    break;
                }
            }
            let (fw, fh) = model.fb();
            let w = (32 + rng.below(40) as u16).min(fw);
            let h = (32 + rng.below(40) as u16).min(fh);
            let mut cfg = base_config(rng, model, transport, w, h);
            if rng.chance(1, 4) {
                cfg.w = fw;
                cfg.h = fh;
                cfg.ox = 0;
                cfg.oy = 0;
            }
            let mut case = mk_case(prop, seed, cfg, vec![Op::TestImage]);
            case.mode = "consequence".into();
            let rc = ReplayCase::Display(case);
            let key = class_key(&rc);
            let j = judge(&rc);
            absorb(r, rc, j, key);
        }
    }
}
