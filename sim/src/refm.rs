//! Reference model (the oracle's picture half): independent of the driver and of the
//! controller model. Written from the wording of the properties.

use crate::case::{Colors, Config, Op, Orient, Rect};
use crate::ctrl::TAG18;
use crate::mem::Mem;

/// literal MADCTL table: bit7 MY, bit6 MX, bit5 MV, bit4 ML (bottom-to-top), bit3 BGR,
/// bit2 MH (right-to-left). One row per orientation, written out.
pub fn madctl_ref(bgr: bool, o: Orient, refresh: u8) -> u8 {
    let my_mx_mv: u8 = match (o.rot & 3, o.mirrored) {
        (0, false) => 0b000_00000,
        (1, false) => 0b011_00000,
        (2, false) => 0b110_00000,
        (3, false) => 0b101_00000,
        (0, true) => 0b010_00000,
        (1, true) => 0b001_00000,
        (2, true) => 0b100_00000,
        (_, true) => 0b111_00000,
        _ => unreachable!(),
    };
    let mut v = my_mx_mv;
    if refresh & 1 != 0 {
        v |= 1 << 4;
    }
    if bgr {
        v |= 1 << 3;
    }
    if refresh & 2 != 0 {
        v |= 1 << 2;
    }
    v
}

/// "rotate the logical image clockwise by the configured rotation, mirror it left-right
/// if mirrored, shift it by the configured offset" -> frame memory cell of logical (x, y)
#[inline]
pub fn place(cfg_w: u32, cfg_h: u32, ox: u32, oy: u32, o: Orient, x: u32, y: u32) -> (u32, u32) {
    let (w, h) = (cfg_w, cfg_h);
    let (mut px, py) = match o.rot & 3 {
        0 => (x, y),
        1 => (w - 1 - y, x),
        2 => (w - 1 - x, h - 1 - y),
        _ => (y, h - 1 - x),
    };
    if o.mirrored {
        px = w - 1 - px;
    }
    (ox + px, oy + py)
}

pub struct RefModel {
    pub w: u32,
    pub h: u32,
    pub ox: u32,
    pub oy: u32,
    pub orient: Orient,
    pub tag: u32,
    pub space: u32,
    pub exp: Mem,
    pub sleeping: bool,
    /// cells the last applied op may have touched, as frame-memory rectangles/cells, for
    /// the narrow post-fault relaxation
    pub may_touch: Vec<(u32, u32, u32, u32)>,
    pub inbounds_pixels: u64,
    pub oob_pixels: u64,
}

impl RefModel {
    pub fn new(cfg: &Config) -> Self {
        let (fw, fh) = cfg.model.fb();
        RefModel {
            w: cfg.w as u32,
            h: cfg.h as u32,
            ox: cfg.ox as u32,
            oy: cfg.oy as u32,
            orient: cfg.orient,
            tag: if cfg.model.rgb666() { TAG18 } else { 0 },
            space: cfg.model.colour_space(),
            exp: Mem::new(fw as u32, fh as u32),
            sleeping: false,
            may_touch: Vec::new(),
            inbounds_pixels: 0,
            oob_pixels: 0,
        }
    }

    /// a re-initialisation: frame memory survives, window / orientation / sleep state are new
    pub fn reconfigure(&mut self, cfg: &Config) {
        self.w = cfg.w as u32;
        self.h = cfg.h as u32;
        self.ox = cfg.ox as u32;
        self.oy = cfg.oy as u32;
        self.orient = cfg.orient;
        self.sleeping = false;
    }

    pub fn logical_size(&self) -> (u32, u32) {
        if self.orient.rot % 2 == 0 {
            (self.w, self.h)
        } else {
            (self.h, self.w)
        }
    }

    #[inline]
    fn cell(&self, x: u32, y: u32) -> (u32, u32) {
        place(self.w, self.h, self.ox, self.oy, self.orient, x, y)
    }

    #[inline]
    fn put(&mut self, x: i64, y: i64, c: u32) -> bool {
        let (lw, lh) = self.logical_size();
        if x < 0 || y < 0 || x >= lw as i64 || y >= lh as i64 {
            self.oob_pixels += 1;
            return false;
        }
        self.inbounds_pixels += 1;
        let (px, py) = self.cell(x as u32, y as u32);
        self.exp.write(px, py, (c & (self.space - 1)) | self.tag);
        true
    }

    /// logical inclusive rectangle -> frame memory inclusive rectangle
    fn phys_rect(&self, x0: u32, y0: u32, x1: u32, y1: u32) -> (u32, u32, u32, u32) {
        let (ax, ay) = self.cell(x0, y0);
        let (bx, by) = self.cell(x1, y1);
        (ax.min(bx), ay.min(by), ax.max(bx), ay.max(by))
    }

    /// intersection of a rectangle with the logical bounding box (inclusive coords)
    pub fn clip(&self, r: &Rect) -> Option<(u32, u32, u32, u32)> {
        let (lw, lh) = self.logical_size();
        if r.w == 0 || r.h == 0 {
            return None;
        }
        let x0 = r.x as i64;
        let y0 = r.y as i64;
        let x1 = x0 + r.w as i64 - 1;
        let y1 = y0 + r.h as i64 - 1;
        let cx0 = x0.max(0);
        let cy0 = y0.max(0);
        let cx1 = x1.min(lw as i64 - 1);
        let cy1 = y1.min(lh as i64 - 1);
        if cx0 > cx1 || cy0 > cy1 {
            return None;
        }
        Some((cx0 as u32, cy0 as u32, cx1 as u32, cy1 as u32))
    }

    /// number of in-bounds pixels `op` would draw (0 for non-drawing ops); does not apply
    pub fn visible_points(&self, op: &Op) -> u64 {
        let (lw, lh) = self.logical_size();
        match op {
            Op::SetPixel { .. } => 1,
            Op::SetPixels { sx, sy, ex, ey, colors } => {
                let area = (*ex as u64 - *sx as u64 + 1) * (*ey as u64 - *sy as u64 + 1);
                area.min(colors.len())
            }
            Op::DrawIter { pixels } => pixels
                .iter()
                .filter(|(x, y, _)| *x >= 0 && *y >= 0 && (*x as i64) < lw as i64 && (*y as i64) < lh as i64)
                .count() as u64,
            Op::FillContiguous { rect, .. } | Op::FillSolid { rect, .. } => match self.clip(rect) {
                Some((x0, y0, x1, y1)) => (x1 - x0 + 1) as u64 * (y1 - y0 + 1) as u64,
                None => 0,
            },
            Op::Clear { .. } => lw as u64 * lh as u64,
            Op::TestImage => lw as u64 * lh as u64 * 2,
            _ => 0,
        }
    }

    /// apply a successful op to the expected frame memory
    pub fn apply(&mut self, op: &Op) {
        self.may_touch.clear();
        match op {
            Op::SetPixel { x, y, c } => {
                self.put(*x as i64, *y as i64, *c);
            }
            Op::SetPixels { sx, sy, ex, ey, colors } => {
                let mut k = 0u64;
                let n = colors.len();
                'outer: for y in *sy..=*ey {
                    for x in *sx..=*ex {
                        if k >= n {
                            break 'outer;
                        }
                        let c = colors.at(k, self.space);
                        self.put(x as i64, y as i64, c);
                        k += 1;
                    }
                }
            }
            Op::DrawIter { pixels } => {
                for &(x, y, c) in pixels {
                    self.put(x as i64, y as i64, c);
                }
            }
            Op::FillContiguous { rect, colors } => {
                if let Some((x0, y0, x1, y1)) = self.clip(rect) {
                    let n = colors.len();
                    for y in y0..=y1 {
                        for x in x0..=x1 {
                            let k = (y as i64 - rect.y as i64) as u64 * rect.w as u64 + (x as i64 - rect.x as i64) as u64;
                            if k < n {
                                let c = colors.at(k, self.space);
                                self.put(x as i64, y as i64, c);
                            }
                        }
                    }
                }
            }
            Op::FillSolid { rect, c } => {
                if let Some((x0, y0, x1, y1)) = self.clip(rect) {
                    let (a, b, c2, d) = self.phys_rect(x0, y0, x1, y1);
                    self.exp.fill(a, b, c2, d, (*c & (self.space - 1)) | self.tag);
                    self.inbounds_pixels += (x1 - x0 + 1) as u64 * (y1 - y0 + 1) as u64;
                }
            }
            Op::Clear { c } => {
                let (lw, lh) = self.logical_size();
                let (a, b, c2, d) = self.phys_rect(0, 0, lw - 1, lh - 1);
                self.exp.fill(a, b, c2, d, (*c & (self.space - 1)) | self.tag);
                self.inbounds_pixels += lw as u64 * lh as u64;
            }
            Op::SetOrientation { o } => self.orient = *o,
            Op::Sleep => self.sleeping = true,
            Op::Wake => self.sleeping = false,
            Op::ScrollRegion { .. } | Op::ScrollOffset { .. } | Op::Tearing { .. } => {}
            // judged by its own picture oracle (C19), not by picture equality
            Op::TestImage => {}
            // handled by the executor through `reconfigure`
            Op::Reinit { .. } => {}
        }
    }

    /// frame-memory cells `op` may touch (superset), as inclusive rectangles
    pub fn touch_set(&self, op: &Op) -> Vec<(u32, u32, u32, u32)> {
        let (lw, lh) = self.logical_size();
        let mut v = Vec::new();
        match op {
            Op::SetPixel { x, y, .. } => {
                if (*x as u32) < lw && (*y as u32) < lh {
                    v.push(self.phys_rect(*x as u32, *y as u32, *x as u32, *y as u32));
                }
            }
            Op::SetPixels { sx, sy, ex, ey, .. } => {
                if (*ex as u32) < lw && (*ey as u32) < lh && sx <= ex && sy <= ey {
                    v.push(self.phys_rect(*sx as u32, *sy as u32, *ex as u32, *ey as u32));
                }
            }
            Op::DrawIter { pixels } => {
                for &(x, y, _) in pixels {
                    if x >= 0 && y >= 0 && (x as u32) < lw && (y as u32) < lh {
                        v.push(self.phys_rect(x as u32, y as u32, x as u32, y as u32));
                    }
                }
            }
            Op::FillContiguous { rect, .. } | Op::FillSolid { rect, .. } => {
                if let Some((x0, y0, x1, y1)) = self.clip(rect) {
                    v.push(self.phys_rect(x0, y0, x1, y1));
                }
            }
            Op::Clear { .. } | Op::TestImage => v.push(self.phys_rect(0, 0, lw - 1, lh - 1)),
            _ => {}
        }
        v
    }

    /// used by the test-image reference: logical fill/put with an RGB triple in 0..=max
    pub fn put_logical(&mut self, x: i64, y: i64, c: u32) {
        self.put(x, y, c);
    }
    pub fn fill_logical(&mut self, r: &Rect, c: u32) {
        if let Some((x0, y0, x1, y1)) = self.clip(r) {
            let (a, b, c2, d) = self.phys_rect(x0, y0, x1, y1);
            self.exp.fill(a, b, c2, d, (c & (self.space - 1)) | self.tag);
        }
    }
}

pub fn colors_iter_len(c: &Colors) -> u64 {
    c.len()
}
