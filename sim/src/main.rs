//! Deterministic simulation harness for almindor/mipidsi.
//!   sim check <id> [--tier quick|thorough] [--seed N] --partial <file> --replays <dir> --findings <file>
//!   sim replay <file>
//!   sim hashes <id> --runs N --threads T [--seed N]
//! exit 0 held / 1 violation / 2 harness error

mod case;
mod ctrl;
mod dut;
mod exec;
mod gen;
mod mem;
mod props;
mod refm;
mod rng;
mod runner;
mod shrink;
mod timg;
mod world;
mod xport;

use props::Tier;
use std::path::PathBuf;

fn arg_val(args: &[String], name: &str) -> Option<String> {
    args.iter().position(|a| a == name).and_then(|i| args.get(i + 1).cloned())
}

fn main() {
    exec::install_quiet_panic_hook();
    let args: Vec<String> = std::env::args().collect();
    if args.len() < 2 {
        eprintln!("usage: sim check|replay|hashes|info ...");
        std::process::exit(2);
    }
    let tier = match arg_val(&args, "--tier").or_else(|| std::env::var("VERIF_TIER").ok()).as_deref() {
        Some("thorough") => Tier::Thorough,
        _ => Tier::Quick,
    };
    let seed = arg_val(&args, "--seed")
        .or_else(|| std::env::var("VERIF_SEED").ok())
        .and_then(|s| s.trim().parse::<u64>().ok())
        .unwrap_or(runner::DEFAULT_SEED);
    if let Some(t) = arg_val(&args, "--threads").and_then(|s| s.parse::<usize>().ok()) {
        if args[1] != "hashes" {
            rayon::ThreadPoolBuilder::new().num_threads(t).build_global().ok();
        }
    }
    let code = match args[1].as_str() {
        "check" => {
            let prop = args.get(2).cloned().unwrap_or_default();
            let a = runner::CheckArgs {
                prop,
                tier,
                seed,
                partial_out: PathBuf::from(arg_val(&args, "--partial").unwrap_or_else(|| "partial.json".into())),
                replay_dir: PathBuf::from(arg_val(&args, "--replays").unwrap_or_else(|| "replays".into())),
                findings: PathBuf::from(arg_val(&args, "--findings").unwrap_or_else(|| "known_findings.json".into())),
                runs_override: arg_val(&args, "--runs").and_then(|s| s.parse().ok()),
                start_index: arg_val(&args, "--start").and_then(|s| s.parse().ok()).unwrap_or(0),
            };
            runner::run_check(&a)
        }
        "replay" => runner::replay(&PathBuf::from(args.get(2).cloned().unwrap_or_default())),
        "hashes" => {
            let prop = args.get(2).cloned().unwrap_or_default();
            let runs = arg_val(&args, "--runs").and_then(|s| s.parse().ok()).unwrap_or(2000);
            let threads = arg_val(&args, "--threads").and_then(|s| s.parse().ok()).unwrap_or(1);
            runner::hashes(&prop, tier, seed, runs, threads)
        }
        "info" => {
            let bi = runner::build_info();
            println!("{}", serde_json::to_string(&bi).unwrap());
            println!("row_capacity={}", props::row_capacity());
            0
        }
        _ => {
            eprintln!("unknown command");
            2
        }
    };
    std::process::exit(code);
}
