//! The simulated world: one virtual clock, pins, SPI device, fault plan, event log.
//! All stubs share one `World` through `Rc<RefCell<_>>` (one thread per run).

use crate::ctrl::Controller;
use crate::rng::Fnv;
use embedded_hal::delay::DelayNs;
use embedded_hal::digital::{self, OutputPin};
use embedded_hal::spi::{self, Operation, SpiDevice};
use serde::{Deserialize, Serialize};
use std::cell::RefCell;
use std::rc::Rc;

pub type WorldRef = Rc<RefCell<World>>;

pub const PIN_DC: u8 = 16;
pub const PIN_WR: u8 = 17;
pub const PIN_RST: u8 = 18;
pub const SRC_SPI: u8 = 100;
pub const SRC_TRACE: u8 = 101;

#[derive(Clone, Copy, Debug, PartialEq, Eq)]
pub enum Level {
    Low,
    High,
    Unknown,
}

/// Error payload injected by the simulator: identifies the source and the
/// low-level operation index, so the oracle can prove the error it gets back is
/// the injected one, unmodified.
#[derive(Clone, Copy, Debug, PartialEq, Eq, Serialize, Deserialize)]
pub struct SimErr {
    pub src: u8,
    pub llop: u64,
}

impl digital::Error for SimErr {
    fn kind(&self) -> digital::ErrorKind {
        digital::ErrorKind::Other
    }
}
impl spi::Error for SimErr {
    fn kind(&self) -> spi::ErrorKind {
        spi::ErrorKind::Other
    }
}

/// typed panic payloads raised by the stubs themselves
#[derive(Clone, Debug, PartialEq, Eq)]
pub enum SimAbort {
    /// bounded-liveness budget of low-level operations exceeded (nontermination)
    Budget,
    /// stub misuse -> harness error
    Harness(String),
}

#[derive(Clone, Copy, Debug, PartialEq, Eq, Serialize, Deserialize)]
pub enum FaultKind {
    /// pin returns Err, level unchanged
    PinFailNoEffect,
    /// pin returns Err, level did change
    PinFailWithEffect,
    /// SPI returns Err, nothing delivered
    SpiFailBefore,
    /// SPI returns Err after a strict prefix was delivered (selector picks the cut)
    SpiFailTorn(u32),
    /// SPI returns Err after everything was delivered
    SpiFailAfter,
}

#[derive(Clone, Copy, Debug, PartialEq, Eq, Serialize, Deserialize)]
pub struct Fault {
    /// absolute index of the low-level operation (pin set / SPI transaction / trace call)
    pub llop: u64,
    pub kind: FaultKind,
}

#[derive(Clone, Copy, Debug, PartialEq, Eq)]
pub enum EvKind {
    PinSet,   // id, flag=level(1 high), ok
    SpiTx,    // val=len, flag=dc level at the time
    Delay,    // val=ns
    Latch,    // word delivered to controller: flag=dc, val=word
    TraceCall, // Interface-level call on TraceDi: id = 0 cmd,1 pixels,2 repeat
}

#[derive(Clone, Copy, Debug)]
pub struct Ev {
    pub t_ns: u64,
    pub kind: EvKind,
    pub id: u8,
    pub flag: u8,
    pub ok: bool,
    pub val: u64,
    pub llop: u64,
}

#[derive(Default, Clone, Debug)]
pub struct FaultStats {
    pub pin_no_effect: u64,
    pub pin_with_effect: u64,
    pub spi_before: u64,
    pub spi_torn: u64,
    pub spi_after: u64,
    pub trace_fail: u64,
}

pub struct World {
    pub now_ns: u64,
    pub llop: u64,
    pub pins: [Level; 20],
    pub log: Vec<Ev>,
    pub log_enabled: bool,
    pub hash: Fnv,
    pub faults: Vec<Fault>,
    pub fault_stats: FaultStats,
    pub fired: Vec<(Fault, SimErr)>,
    /// remaining low-level operations for the current call (bounded liveness)
    pub budget: u64,
    pub ctrl: Option<Controller>,
    /// 8 or 16 data pins are sampled at a WR rising edge
    pub bus_width: u8,
    /// record of every word delivered (dc_high, value) - for transport-level checks
    pub words: Vec<(bool, u16)>,
    pub record_words: bool,
    /// number of SPI transactions / WR rising edges seen
    pub spi_transactions: u64,
    pub strobes: u64,
    /// violations noticed by the stubs themselves (unknown pin sampled ...)
    pub stub_faults: Vec<String>,
    pub delay_total_ns: u64,
    pub delays: u64,
}

impl World {
    pub fn new(bus_width: u8, ctrl: Option<Controller>) -> Self {
        World {
            now_ns: 0,
            llop: 0,
            pins: [Level::Unknown; 20],
            log: Vec::new(),
            log_enabled: false,
            hash: Fnv::default(),
            faults: Vec::new(),
            fault_stats: FaultStats::default(),
            fired: Vec::new(),
            budget: u64::MAX,
            ctrl,
            bus_width,
            words: Vec::new(),
            record_words: false,
            spi_transactions: 0,
            strobes: 0,
            stub_faults: Vec::new(),
            delay_total_ns: 0,
            delays: 0,
        }
    }

    pub fn into_ref(self) -> WorldRef {
        Rc::new(RefCell::new(self))
    }

    #[inline]
    fn push(&mut self, ev: Ev) {
        self.hash.u64(ev.t_ns);
        self.hash
            .u64((ev.kind as u64) | (ev.id as u64) << 8 | (ev.flag as u64) << 16 | (ev.ok as u64) << 24);
        self.hash.u64(ev.val);
        if self.log_enabled {
            self.log.push(ev);
        }
    }

    /// start one low-level operation: budget, index, fault lookup
    #[inline]
    fn begin_llop(&mut self) -> (u64, Option<FaultKind>) {
        if self.budget == 0 {
            std::panic::panic_any(SimAbort::Budget);
        }
        self.budget -= 1;
        let idx = self.llop;
        self.llop += 1;
        let mut hit = None;
        if !self.faults.is_empty() {
            if let Some(pos) = self.faults.iter().position(|f| f.llop == idx) {
                hit = Some(self.faults.remove(pos).kind);
            }
        }
        (idx, hit)
    }

    #[inline]
    pub fn deliver(&mut self, dc_high: bool, word: u16) {
        let now = self.now_ns;
        self.push(Ev {
            t_ns: now,
            kind: EvKind::Latch,
            id: 0,
            flag: dc_high as u8,
            ok: true,
            val: word as u64,
            llop: self.llop.wrapping_sub(1),
        });
        if self.record_words {
            self.words.push((dc_high, word));
        }
        if let Some(c) = self.ctrl.as_mut() {
            c.word(now, dc_high, word);
        }
    }

    fn pin_set(&mut self, id: u8, high: bool) -> Result<(), SimErr> {
        let (idx, fault) = self.begin_llop();
        let new = if high { Level::High } else { Level::Low };
        let (apply, result) = match fault {
            None => (true, Ok(())),
            Some(FaultKind::PinFailNoEffect) | Some(FaultKind::SpiFailBefore) => {
                self.fault_stats.pin_no_effect += 1;
                (false, Err(SimErr { src: id, llop: idx }))
            }
            Some(_) => {
                self.fault_stats.pin_with_effect += 1;
                (true, Err(SimErr { src: id, llop: idx }))
            }
        };
        if let (Some(k), Err(e)) = (fault, result) {
            self.fired.push((Fault { llop: idx, kind: k }, e));
        }
        let now = self.now_ns;
        self.push(Ev {
            t_ns: now,
            kind: EvKind::PinSet,
            id,
            flag: high as u8,
            ok: result.is_ok(),
            val: apply as u64,
            llop: idx,
        });
        if apply {
            let old = self.pins[id as usize];
            self.pins[id as usize] = new;
            if id == PIN_WR && old == Level::Low && new == Level::High {
                self.wr_rising_edge();
            }
            if id == PIN_RST {
                if let Some(c) = self.ctrl.as_mut() {
                    c.reset_line(now, high);
                }
            }
        }
        result
    }

    fn wr_rising_edge(&mut self) {
        self.strobes += 1;
        let mut v: u16 = 0;
        let mut unknown = false;
        for i in 0..self.bus_width as usize {
            match self.pins[i] {
                Level::High => v |= 1 << i,
                Level::Low => {}
                Level::Unknown => unknown = true,
            }
        }
        let dc = match self.pins[PIN_DC as usize] {
            Level::High => true,
            Level::Low => false,
            Level::Unknown => {
                unknown = true;
                true
            }
        };
        if unknown && self.stub_faults.len() < 4 {
            self.stub_faults
                .push("write strobe sampled a pin that was never driven".to_string());
        }
        self.deliver(dc, v);
    }

    fn spi_transaction(&mut self, ops: &mut [Operation<'_, u8>]) -> Result<(), SimErr> {
        let (idx, fault) = self.begin_llop();
        self.spi_transactions += 1;
        let dc = match self.pins[PIN_DC as usize] {
            Level::High => true,
            Level::Low => false,
            Level::Unknown => {
                if self.stub_faults.len() < 4 {
                    self.stub_faults
                        .push("SPI transfer while DC was never driven".to_string());
                }
                true
            }
        };
        let mut total = 0usize;
        for op in ops.iter() {
            match op {
                Operation::Write(b) => total += b.len(),
                _ => std::panic::panic_any(SimAbort::Harness(
                    "SpiDevice operation other than Write".into(),
                )),
            }
        }
        let (deliver_n, result) = match fault {
            None => (total, Ok(())),
            Some(FaultKind::SpiFailBefore) | Some(FaultKind::PinFailNoEffect) => {
                self.fault_stats.spi_before += 1;
                (0, Err(SimErr { src: SRC_SPI, llop: idx }))
            }
            Some(FaultKind::SpiFailTorn(sel)) => {
                if total >= 2 {
                    self.fault_stats.spi_torn += 1;
                    (1 + (sel as usize % (total - 1)), Err(SimErr { src: SRC_SPI, llop: idx }))
                } else {
                    self.fault_stats.spi_before += 1;
                    (0, Err(SimErr { src: SRC_SPI, llop: idx }))
                }
            }
            Some(FaultKind::SpiFailAfter) | Some(FaultKind::PinFailWithEffect) => {
                self.fault_stats.spi_after += 1;
                (total, Err(SimErr { src: SRC_SPI, llop: idx }))
            }
        };
        if let (Some(k), Err(e)) = (fault, result) {
            self.fired.push((Fault { llop: idx, kind: k }, e));
        }
        let now = self.now_ns;
        self.push(Ev {
            t_ns: now,
            kind: EvKind::SpiTx,
            id: SRC_SPI,
            flag: dc as u8,
            ok: result.is_ok(),
            val: total as u64,
            llop: idx,
        });
        let mut left = deliver_n;
        for op in ops.iter() {
            if let Operation::Write(b) = op {
                for &byte in b.iter() {
                    if left == 0 {
                        break;
                    }
                    left -= 1;
                    self.deliver(dc, byte as u16);
                }
            }
        }
        result
    }

    /// Interface-level call on the TraceDi stub: one low-level operation
    pub fn trace_call(&mut self, which: u8) -> Result<(), SimErr> {
        let (idx, fault) = self.begin_llop();
        let result = match fault {
            None => Ok(()),
            Some(k) => {
                self.fault_stats.trace_fail += 1;
                let e = SimErr { src: SRC_TRACE, llop: idx };
                self.fired.push((Fault { llop: idx, kind: k }, e));
                Err(e)
            }
        };
        let now = self.now_ns;
        self.push(Ev {
            t_ns: now,
            kind: EvKind::TraceCall,
            id: which,
            flag: 0,
            ok: result.is_ok(),
            val: 0,
            llop: idx,
        });
        result
    }

    fn delay(&mut self, ns: u64) {
        let now = self.now_ns;
        self.push(Ev {
            t_ns: now,
            kind: EvKind::Delay,
            id: 0,
            flag: 0,
            ok: true,
            val: ns,
            llop: self.llop,
        });
        self.now_ns += ns;
        self.delay_total_ns += ns;
        self.delays += 1;
    }
}

// ---------------------------------------------------------------- stubs

pub struct SimPin {
    pub w: WorldRef,
    pub id: u8,
}

impl SimPin {
    pub fn new(w: &WorldRef, id: u8) -> Self {
        SimPin { w: w.clone(), id }
    }
}

impl digital::ErrorType for SimPin {
    type Error = SimErr;
}

impl OutputPin for SimPin {
    #[inline]
    fn set_low(&mut self) -> Result<(), SimErr> {
        self.w.borrow_mut().pin_set(self.id, false)
    }
    #[inline]
    fn set_high(&mut self) -> Result<(), SimErr> {
        self.w.borrow_mut().pin_set(self.id, true)
    }
}

thread_local! {
    /// the world of the run executing on this thread (one run never leaves its thread);
    /// lets a pin be a zero-sized type, as the pins of real HALs are
    pub static CURRENT_WORLD: RefCell<Option<WorldRef>> = RefCell::new(None);
}

/// zero-sized pin: finds its world through the thread-local
pub struct ZstPin<const ID: u8>;

impl<const ID: u8> digital::ErrorType for ZstPin<ID> {
    type Error = SimErr;
}

impl<const ID: u8> OutputPin for ZstPin<ID> {
    fn set_low(&mut self) -> Result<(), SimErr> {
        let w = CURRENT_WORLD.with(|c| c.borrow().clone()).expect("no current world");
        let r = w.borrow_mut().pin_set(ID, false);
        r
    }
    fn set_high(&mut self) -> Result<(), SimErr> {
        let w = CURRENT_WORLD.with(|c| c.borrow().clone()).expect("no current world");
        let r = w.borrow_mut().pin_set(ID, true);
        r
    }
}

pub struct SimSpi {
    pub w: WorldRef,
}

impl spi::ErrorType for SimSpi {
    type Error = SimErr;
}

impl SpiDevice<u8> for SimSpi {
    fn transaction(&mut self, operations: &mut [Operation<'_, u8>]) -> Result<(), SimErr> {
        self.w.borrow_mut().spi_transaction(operations)
    }
}

/// The only clock. `all_methods` = override delay_us/delay_ms too (otherwise the HAL's
/// default chunking into delay_ns is exercised).
pub struct SimClock {
    pub w: WorldRef,
    pub all_methods: bool,
}

impl DelayNs for SimClock {
    fn delay_ns(&mut self, ns: u32) {
        self.w.borrow_mut().delay(ns as u64);
    }
    fn delay_us(&mut self, us: u32) {
        if self.all_methods {
            self.w.borrow_mut().delay(us as u64 * 1_000);
        } else {
            // the HAL default
            let mut us = us;
            const MAX: u32 = u32::MAX / 1_000;
            while us > MAX {
                us -= MAX;
                self.delay_ns(MAX * 1_000);
            }
            self.delay_ns(us * 1_000);
        }
    }
    fn delay_ms(&mut self, ms: u32) {
        if self.all_methods {
            self.w.borrow_mut().delay(ms as u64 * 1_000_000);
        } else {
            let mut ms = ms;
            const MAX: u32 = u32::MAX / 1_000_000;
            while ms > MAX {
                ms -= MAX;
                self.delay_ns(MAX * 1_000_000);
            }
            self.delay_ns(ms * 1_000_000);
        }
    }
}
