//! One integer decides everything: splitmix64 seeding + xoshiro256** stream.
//! Never consulted while a program executes or while logging.

#[inline]
pub fn splitmix64(x: u64) -> u64 {
    let mut z = x.wrapping_add(0x9E37_79B9_7F4A_7C15);
    z = (z ^ (z >> 30)).wrapping_mul(0xBF58_476D_1CE4_E5B9);
    z = (z ^ (z >> 27)).wrapping_mul(0x94D0_49BB_1331_11EB);
    z ^ (z >> 31)
}

pub fn hash_str(s: &str) -> u64 {
    // FNV-1a 64
    let mut h: u64 = 0xcbf2_9ce4_8422_2325;
    for b in s.bytes() {
        h ^= b as u64;
        h = h.wrapping_mul(0x0000_0100_0000_01B3);
    }
    h
}

#[derive(Clone, Debug)]
pub struct Rng {
    s: [u64; 4],
    /// a few values this run keeps coming back to (colours / bus words): stale-state bugs
    /// need the same value at two different moments
    pub palette: [u32; 3],
}

impl Rng {
    pub fn new(seed: u64) -> Self {
        let mut x = seed;
        let mut s = [0u64; 4];
        for i in 0..4 {
            x = splitmix64(x);
            s[i] = x;
        }
        if s == [0; 4] {
            s[0] = 1;
        }
        let mut r = Rng { s, palette: [0; 3] };
        for i in 0..3 {
            r.palette[i] = r.next_u64() as u32;
        }
        r
    }

    #[inline]
    pub fn next_u64(&mut self) -> u64 {
        let result = self.s[1].wrapping_mul(5).rotate_left(7).wrapping_mul(9);
        let t = self.s[1] << 17;
        self.s[2] ^= self.s[0];
        self.s[3] ^= self.s[1];
        self.s[1] ^= self.s[2];
        self.s[0] ^= self.s[3];
        self.s[2] ^= t;
        self.s[3] = self.s[3].rotate_left(45);
        result
    }

    /// uniform in 0..n (n > 0)
    #[inline]
    pub fn below(&mut self, n: u64) -> u64 {
        debug_assert!(n > 0);
        // multiply-shift; bias negligible for our n
        ((self.next_u64() as u128 * n as u128) >> 64) as u64
    }

    /// uniform in lo..=hi
    #[inline]
    pub fn range(&mut self, lo: i64, hi: i64) -> i64 {
        debug_assert!(lo <= hi);
        let span = (hi as i128 - lo as i128 + 1) as u128;
        let r = ((self.next_u64() as u128 * span) >> 64) as i128;
        (lo as i128 + r) as i64
    }

    #[inline]
    pub fn chance(&mut self, num: u64, den: u64) -> bool {
        self.below(den) < num
    }

    #[inline]
    pub fn coin(&mut self) -> bool {
        self.next_u64() & 1 == 1
    }

    pub fn pick<'a, T>(&mut self, xs: &'a [T]) -> &'a T {
        &xs[self.below(xs.len() as u64) as usize]
    }

    /// index chosen by integer weights
    pub fn weighted(&mut self, weights: &[u32]) -> usize {
        let total: u64 = weights.iter().map(|&w| w as u64).sum();
        debug_assert!(total > 0);
        let mut r = self.below(total);
        for (i, &w) in weights.iter().enumerate() {
            if r < w as u64 {
                return i;
            }
            r -= w as u64;
        }
        weights.len() - 1
    }
}

/// rolling hash used for event-log fingerprints (determinism proof) and class keys
#[derive(Clone, Copy, Debug)]
pub struct Fnv(pub u64);

impl Default for Fnv {
    fn default() -> Self {
        Fnv(0xcbf2_9ce4_8422_2325)
    }
}

impl Fnv {
    #[inline]
    pub fn u64(&mut self, v: u64) {
        // mix 8 bytes at once (not byte-wise FNV, but a fixed deterministic mix)
        self.0 = (self.0 ^ v).wrapping_mul(0x0000_0100_0000_01B3);
        self.0 ^= self.0 >> 29;
    }
    #[inline]
    pub fn str(&mut self, s: &str) {
        for b in s.bytes() {
            self.u64(b as u64);
        }
    }
}
