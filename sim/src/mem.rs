//! Frame memory used both by the controller model and by the reference model.
//! Dense for small framebuffers, layered-sparse for giant ones.

use std::collections::BTreeMap;

pub const UNTOUCHED: u32 = u32::MAX;
const DENSE_LIMIT: u64 = 1 << 21;

#[derive(Clone, Debug)]
pub struct Layer {
    pub x0: u32,
    pub y0: u32,
    pub x1: u32,
    pub y1: u32,
    pub val: u32,
    pub seq: u64,
}

#[derive(Clone, Debug)]
pub enum Store {
    Dense { cells: Vec<u32>, dirty: Vec<u32> },
    Sparse { layers: Vec<Layer>, cells: BTreeMap<(u32, u32), (u32, u64)>, seq: u64 },
}

#[derive(Clone, Debug)]
pub struct Mem {
    pub w: u32,
    pub h: u32,
    pub store: Store,
    /// number of individual cell writes (statistics)
    pub writes: u64,
    /// when enabled, every write (cell index, value) in order - dense memories only
    pub journal: Option<Vec<(u32, u32)>>,
}

impl Mem {
    pub fn new(w: u32, h: u32) -> Self {
        let store = if (w as u64) * (h as u64) <= DENSE_LIMIT {
            Store::Dense { cells: vec![UNTOUCHED; (w * h) as usize], dirty: Vec::new() }
        } else {
            Store::Sparse { layers: Vec::new(), cells: BTreeMap::new(), seq: 0 }
        };
        Mem { w, h, store, writes: 0, journal: None }
    }

    pub fn is_dense(&self) -> bool {
        matches!(self.store, Store::Dense { .. })
    }

    #[inline]
    pub fn write(&mut self, x: u32, y: u32, v: u32) {
        debug_assert!(x < self.w && y < self.h);
        self.writes += 1;
        match &mut self.store {
            Store::Dense { cells, dirty } => {
                let i = y * self.w + x;
                cells[i as usize] = v;
                dirty.push(i);
                if let Some(j) = self.journal.as_mut() {
                    j.push((i, v));
                }
            }
            Store::Sparse { cells, seq, .. } => {
                *seq += 1;
                cells.insert((x, y), (v, *seq));
                if cells.len() > 6_000_000 {
                    // the generators keep per-pixel traffic on giant framebuffers small; a driver
                    // that turns an O(1) fill into billions of single pixels cannot be simulated
                    std::panic::panic_any(crate::world::SimAbort::Harness(
                        "more than 6 million individually written cells on a giant framebuffer".into(),
                    ));
                }
            }
        }
    }

    /// inclusive rectangle fill
    pub fn fill(&mut self, x0: u32, y0: u32, x1: u32, y1: u32, v: u32) {
        debug_assert!(x0 <= x1 && y0 <= y1 && x1 < self.w && y1 < self.h);
        let n = (x1 - x0 + 1) as u64 * (y1 - y0 + 1) as u64;
        self.writes += n;
        match &mut self.store {
            Store::Dense { cells, dirty } => {
                for y in y0..=y1 {
                    for x in x0..=x1 {
                        let i = y * self.w + x;
                        cells[i as usize] = v;
                        dirty.push(i);
                        if let Some(j) = self.journal.as_mut() {
                            j.push((i, v));
                        }
                    }
                }
            }
            Store::Sparse { layers, cells, seq } => {
                *seq += 1;
                if n <= 64 {
                    for y in y0..=y1 {
                        for x in x0..=x1 {
                            cells.insert((x, y), (v, *seq));
                        }
                    }
                } else {
                    layers.push(Layer { x0, y0, x1, y1, val: v, seq: *seq });
                }
            }
        }
    }

    #[inline]
    pub fn read(&self, x: u32, y: u32) -> u32 {
        match &self.store {
            Store::Dense { cells, .. } => cells[(y * self.w + x) as usize],
            Store::Sparse { layers, cells, .. } => {
                let (mut v, mut s) = cells.get(&(x, y)).copied().unwrap_or((UNTOUCHED, 0));
                for l in layers {
                    if l.seq > s && x >= l.x0 && x <= l.x1 && y >= l.y0 && y <= l.y1 {
                        v = l.val;
                        s = l.seq;
                    }
                }
                v
            }
        }
    }

    pub fn take_dirty(&mut self) -> Vec<u32> {
        match &mut self.store {
            Store::Dense { dirty, .. } => std::mem::take(dirty),
            _ => Vec::new(),
        }
    }

    /// points worth probing in sparse mode: every individually written cell, and the
    /// corners of every layer, each +-1
    pub fn interesting(&self, out: &mut Vec<(u32, u32)>) {
        if let Store::Sparse { layers, cells, .. } = &self.store {
            for (&(x, y), _) in cells.iter().take(20_000) {
                out.push((x, y));
            }
            for l in layers.iter().rev().take(64) {
                for &(cx, cy) in &[(l.x0, l.y0), (l.x1, l.y0), (l.x0, l.y1), (l.x1, l.y1)] {
                    for dx in -1i64..=1 {
                        for dy in -1i64..=1 {
                            let x = cx as i64 + dx;
                            let y = cy as i64 + dy;
                            if x >= 0 && y >= 0 && (x as u32) < self.w && (y as u32) < self.h {
                                out.push((x as u32, y as u32));
                            }
                        }
                    }
                }
            }
        }
    }
}

/// First differing cell between two memories, if any. For dense memories `cells` limits
/// the comparison to the given indices (None = everything). Sparse memories are compared
/// on the interesting points of both plus pseudo-random probes (can miss, cannot accuse).
pub fn first_diff(a: &Mem, b: &Mem, cells: Option<&[u32]>, probe_seed: u64) -> Option<(u32, u32, u32, u32)> {
    debug_assert!(a.w == b.w && a.h == b.h);
    match (&a.store, &b.store) {
        (Store::Dense { cells: ca, .. }, Store::Dense { cells: cb, .. }) => match cells {
            Some(idx) => {
                for &i in idx {
                    if ca[i as usize] != cb[i as usize] {
                        return Some((i % a.w, i / a.w, ca[i as usize], cb[i as usize]));
                    }
                }
                None
            }
            None => {
                if ca == cb {
                    return None;
                }
                for i in 0..ca.len() {
                    if ca[i] != cb[i] {
                        let i = i as u32;
                        return Some((i % a.w, i / a.w, ca[i as usize], cb[i as usize]));
                    }
                }
                None
            }
        },
        _ => {
            let mut pts = Vec::new();
            a.interesting(&mut pts);
            b.interesting(&mut pts);
            let mut s = probe_seed;
            for _ in 0..256 {
                s = crate::rng::splitmix64(s);
                let x = ((s >> 32) as u64 * a.w as u64 >> 32) as u32;
                let y = ((s & 0xffff_ffff) * a.h as u64 >> 32) as u32;
                pts.push((x.min(a.w - 1), y.min(a.h - 1)));
            }
            for (x, y) in pts {
                let va = a.read(x, y);
                let vb = b.read(x, y);
                if va != vb {
                    return Some((x, y, va, vb));
                }
            }
            None
        }
    }
}
