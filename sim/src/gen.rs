//! Seeded generators: configuration swarm, program shapes, fault plans.
//! Every choice comes from the one PRNG of the run, in generation order.

use crate::case::*;
use crate::rng::Rng;
use crate::world::{Fault, FaultKind};

#[derive(Clone, Copy, Debug, PartialEq, Eq)]
pub enum Level {
    /// real transports over simulated pins / SPI
    Pin,
    /// TraceDi
    Trace,
    Any,
}

#[derive(Clone, Debug)]
pub struct CfgOpts {
    pub level: Level,
    pub sim_models: bool,
    /// allow giant framebuffers (sparse memory)
    pub giant: bool,
    /// only built-in models
    pub builtin_only: bool,
    /// probability (per 100) of a full-framebuffer window
    pub full_window_pct: u64,
    pub max_window: u16,
    pub need_supported: bool,
    pub large_windows: bool,
    pub real_panels: bool,
}

impl Default for CfgOpts {
    fn default() -> Self {
        CfgOpts { level: Level::Any, sim_models: true, giant: true, builtin_only: false, full_window_pct: 4, max_window: 64, need_supported: true, large_windows: true, real_panels: true }
    }
}

pub const SPI_BUFS: [u32; 14] = [2, 3, 4, 5, 6, 7, 9, 16, 64, 100, 200, 300, 512, 1024];

pub fn gen_transport(rng: &mut Rng, level: Level, model: ModelId) -> Transport {
    let bpp: u32 = if model.rgb666() { 3 } else { 2 };
    loop {
        let pin = match level {
            Level::Pin => true,
            Level::Trace => false,
            Level::Any => rng.chance(3, 5),
        };
        let t = if pin {
            match rng.below(3) {
                0 => {
                    let mut b = *rng.pick(&SPI_BUFS);
                    if rng.chance(1, 4) {
                        b = bpp * (1 + rng.below(60) as u32);
                    }
                    if rng.chance(1, 8) {
                        b = bpp;
                    }
                    if rng.chance(1, 40) {
                        // a full-frame staging buffer: more than 65535 pixels fit
                        b = *rng.pick(&[131_072u32, 131_074, 153_600, 196_608, 196_611, 230_400, 262_144]);
                    }
                    Transport::Spi { buf: b.max(bpp) }
                }
                1 => Transport::Par8,
                _ => Transport::Par16,
            }
        } else {
            Transport::Trace(*rng.pick(&[Kind::Serial, Kind::P8, Kind::P16]))
        };
        if crate::dut::pairing_compiles(model, t) {
            return t;
        }
    }
}

pub fn gen_orient(rng: &mut Rng) -> Orient {
    Orient { rot: rng.below(4) as u8, mirrored: rng.coin() }
}

/// window inside the framebuffer, biased to boundaries
pub fn gen_window(rng: &mut Rng, fw: u16, fh: u16, o: &CfgOpts, allow_full: bool) -> (u16, u16, u16, u16) {
    let cap = |v: u16, m: u16| v.min(m).max(1);
    let (w, h) = if allow_full && rng.chance(o.full_window_pct, 100) {
        (fw, fh)
    } else if o.large_windows && rng.chance(1, 10) && (fw > 257 || fh > 257) {
        // logical coordinates beyond 255: the high byte of the address parameters matters
        let big = |rng: &mut Rng, f: u16| if f > 257 { 257 + rng.below((f - 257) as u64 + 1) as u16 } else { cap(1 + rng.below(o.max_window as u64) as u16, f) };
        if rng.coin() {
            (big(rng, fw), cap(1 + rng.below(o.max_window as u64) as u16, fh))
        } else {
            (cap(1 + rng.below(o.max_window as u64) as u16, fw), big(rng, fh))
        }
    } else {
        match rng.below(10) {
            0 => (1, 1),
            1 => (cap(fw, o.max_window), cap(1 + rng.below(o.max_window as u64) as u16, fh)),
            2 => (cap(1 + rng.below(o.max_window as u64) as u16, fw), cap(fh, o.max_window)),
            3 => {
                let s = 1 + rng.below(o.max_window.min(fw).min(fh) as u64) as u16;
                (s, s)
            }
            _ => (cap(1 + rng.below(o.max_window as u64) as u16, fw), cap(1 + rng.below(o.max_window as u64) as u16, fh)),
        }
    };
    let off = |rng: &mut Rng, size: u16, f: u16| -> u16 {
        let max = f - size;
        if max == 0 {
            return 0;
        }
        match rng.below(6) {
            0 | 1 => 0,
            2 | 3 => max,
            4 => 1.min(max),
            _ => rng.below(max as u64 + 1) as u16,
        }
    };
    let mut ox = off(rng, w, fw);
    let mut oy = off(rng, h, fh);
    // panels are often centred in the controller's memory (equal margins on both sides)
    match rng.below(12) {
        0 => {
            ox = (fw - w) / 2;
            oy = (fh - h) / 2;
        }
        1 => ox = (fw - w) / 2,
        2 => oy = (fh - h) / 2,
        _ => {}
    }
    (w, h, ox, oy)
}

/// panel geometries people really build (size and offset inside the controller framebuffer)
pub const REAL_PANELS: [(ModelId, u16, u16, u16, u16); 22] = [
    (ModelId::ST7789, 135, 240, 52, 40),
    (ModelId::ST7789, 240, 240, 0, 0),
    (ModelId::ST7789, 240, 240, 0, 80),
    (ModelId::ST7789, 172, 320, 34, 0),
    (ModelId::ST7789, 170, 320, 35, 0),
    (ModelId::ST7789, 240, 280, 0, 20),
    (ModelId::ST7789, 240, 320, 0, 0),
    (ModelId::ST7735s, 80, 160, 26, 1),
    (ModelId::ST7735s, 128, 160, 2, 1),
    (ModelId::ST7735s, 128, 128, 2, 3),
    (ModelId::ST7735s, 132, 162, 0, 0),
    (ModelId::GC9107, 128, 128, 0, 32),
    (ModelId::GC9107, 128, 160, 0, 0),
    (ModelId::GC9A01, 240, 240, 0, 0),
    (ModelId::ILI9341Rgb565, 240, 320, 0, 0),
    (ModelId::ILI9341Rgb666, 240, 320, 0, 0),
    (ModelId::ILI9342CRgb565, 320, 240, 0, 0),
    (ModelId::ILI9486Rgb666, 320, 480, 0, 0),
    (ModelId::ILI9488Rgb565, 320, 480, 0, 0),
    (ModelId::ST7796, 320, 480, 0, 0),
    (ModelId::RM67162, 240, 536, 0, 0),
    (ModelId::ILI9488Rgb666, 320, 480, 0, 0),
];

pub fn gen_config(rng: &mut Rng, o: &CfgOpts) -> Config {
    if o.real_panels && rng.chance(1, 8) {
        // a real panel at its real offset; whole-screen operations only where they stay cheap
        loop {
            let (model, w, h, ox, oy) = *rng.pick(&REAL_PANELS);
            let transport = match rng.below(4) {
                0 => Transport::Spi { buf: *rng.pick(&[64u32, 256, 512, 1024, 4096, 115_200, 153_600]) },
                1 => gen_transport(rng, Level::Pin, model),
                _ => Transport::Trace(*rng.pick(&[Kind::Serial, Kind::P8, Kind::P16])),
            };
            if !crate::dut::pairing_compiles(model, transport) || !crate::dut::supported_today(model, transport.kind()) {
                continue;
            }
            if matches!(o.level, Level::Pin) && !transport.pin_level() {
                continue;
            }
            if matches!(o.level, Level::Trace) && transport.pin_level() {
                continue;
            }
            return Config {
                model,
                transport,
                w,
                h,
                ox,
                oy,
                orient: gen_orient(rng),
                bgr: rng.coin(),
                invert: rng.coin(),
                refresh: rng.below(4) as u8,
                rst: rng.coin(),
                init_levels: rng.below(8) as u8,
                clock_all_methods: rng.coin(),
                latch_partial: rng.coin(),
                by_ref: !transport.pin_level() && rng.chance(1, 3),
                builder_order: if rng.chance(1, 3) { rng.below(720) as u16 | ((rng.below(2) as u16) << 15) } else { 0 },
                zst_rst: rng.chance(1, 3),
                bus_from: rng.chance(1, 3),
            };
        }
    }
    loop {
        let model = if o.builtin_only || !o.sim_models || rng.chance(2, 3) {
            *rng.pick(&BUILTIN_MODELS)
        } else {
            *rng.pick(&SIM_MODELS)
        };
        let (fw, fh) = model.fb();
        let giant = fw as u64 * fh as u64 > (1 << 21);
        if giant && !o.giant {
            continue;
        }
        let transport = gen_transport(rng, o.level, model);
        if o.need_supported && model.builtin() && !crate::dut::supported_today(model, transport.kind()) {
            continue;
        }
        // full windows only where a clear() stays affordable
        let allow_full = !giant && (fw as u32 * fh as u32 <= 160 * 170 || !transport.pin_level());
        let (w, h, ox, oy) = gen_window(rng, fw, fh, o, allow_full);
        return Config {
            model,
            transport,
            w,
            h,
            ox,
            oy,
            orient: gen_orient(rng),
            bgr: rng.coin(),
            invert: rng.coin(),
            refresh: rng.below(4) as u8,
            rst: rng.coin(),
            init_levels: rng.below(8) as u8,
            clock_all_methods: rng.coin(),
            latch_partial: rng.coin(),
            by_ref: !transport.pin_level() && rng.chance(1, 3),
                builder_order: if rng.chance(1, 3) { rng.below(720) as u16 | ((rng.below(2) as u16) << 15) } else { 0 },
                zst_rst: rng.chance(1, 3),
                bus_from: rng.chance(1, 3),
        };
    }
}

/// a restart with new options on the same model / transport / reset pin
pub fn gen_reinit(rng: &mut Rng, cfg: &Config) -> Op {
    let (fw, fh) = cfg.model.fb();
    let giant = fw as u64 * fh as u64 > (1 << 21);
    let allow_full = !giant && (fw as u32 * fh as u32 <= 160 * 170 || !cfg.transport.pin_level());
    let (w, h, ox, oy) = if rng.chance(1, 4) { (cfg.w, cfg.h, cfg.ox, cfg.oy) } else { gen_window(rng, fw, fh, &CfgOpts::default(), allow_full) };
    Op::Reinit { w, h, ox, oy, orient: gen_orient(rng), bgr: rng.coin(), invert: rng.coin(), refresh: rng.below(4) as u8 }
}

/// Is the program a legal use of the API for this property's domain? (the minimiser must not
/// turn an in-bounds program into one that passes out-of-range values to `set_pixels`, which
/// the crate documents as undefined)
pub fn program_valid(prop: &str, cfg0: &Config, program: &[Op]) -> bool {
    let mut cfg = cfg0.clone();
    let strict_inbounds = matches!(prop, "C01" | "C03" | "C20" | "C13" | "C16" | "C12" | "C05");
    for op in program {
        let (lw, lh) = cfg.logical_size();
        match op {
            Op::SetPixel { x, y, .. } => {
                if *x as u32 >= lw || *y as u32 >= lh {
                    return false;
                }
            }
            Op::SetPixels { sx, sy, ex, ey, colors } => {
                if sx > ex || sy > ey || *ex as u32 >= lw || *ey as u32 >= lh {
                    return false;
                }
                if strict_inbounds && colors.len() > (*ex as u64 - *sx as u64 + 1) * (*ey as u64 - *sy as u64 + 1) {
                    return false;
                }
            }
            Op::DrawIter { pixels } if strict_inbounds => {
                if pixels.iter().any(|&(x, y, _)| x < 0 || y < 0 || x as u32 >= lw || y as u32 >= lh) {
                    return false;
                }
            }
            Op::FillContiguous { rect, .. } | Op::FillSolid { rect, .. } => {
                if !valid_eg_rect(rect) {
                    return false;
                }
                if prop == "C01" && (rect.x < 0 || rect.y < 0 || rect.x as i64 + rect.w as i64 > lw as i64 || rect.y as i64 + rect.h as i64 > lh as i64 || rect.w == 0 || rect.h == 0) {
                    return false;
                }
            }
            Op::SetOrientation { o } => cfg.orient = *o,
            Op::Reinit { .. } => {
                cfg = cfg.after_reinit(op);
                if !cfg.fits() {
                    return false;
                }
            }
            _ => {}
        }
    }
    true
}

/// pixel budget of one call, by transport cost
pub fn px_budget(t: Transport) -> u64 {
    match t {
        Transport::Par8 | Transport::Par16 => 1500,
        Transport::Spi { .. } => 6000,
        Transport::Trace(_) => 12000,
    }
}

pub fn gen_colour(rng: &mut Rng) -> u32 {
    match rng.below(12) {
        0 => 0,
        1 => 0xFFFF_FFFF,
        2 => 0x0101_0101 * rng.below(256) as u32, // equal bytes: parallel fast path
        3 => {
            // first and last bus byte equal, middle different (r == b != g for Rgb666)
            let a = rng.below(64) as u32;
            let b = rng.below(64) as u32;
            a << 12 | b << 6 | a
        }
        4..=6 => rng.palette[rng.below(3) as usize],
        7 => *rng.pick(&[0xF800u32, 0x07E0, 0x001F, 0xFFFF, 0xFFE0, 0x07FF, 0xF81F, 0x3F000, 0x00FC0, 0x0003F, 0x3FFFF, 0x3FFC0, 0x00FFF, 0x3F03F]),
        _ => rng.next_u64() as u32,
    }
}

const RUN_LENGTHS: [u32; 12] = [1, 2, 3, 49, 50, 51, 99, 100, 101, 149, 150, 151];

#[derive(Clone, Copy, Debug, PartialEq, Eq)]
pub enum Oob {
    /// only in-bounds pixels
    None,
    /// in-bounds plus negative coordinates (dropped by both draw_iter variants' contract)
    Negative,
    /// anything in i32 x i32
    Full,
}

pub fn boundary_coord(rng: &mut Rng, extent: u32) -> i32 {
    let e = extent as i64;
    let v: i64 = match rng.below(16) {
        0 => e - 1,
        1 => e,
        2 => e + 1,
        3 => -1,
        4 => -2,
        5 => 65534,
        6 => 65535,
        7 => 65536,
        8 => 65537,
        9 => 65536 + rng.below(extent as u64) as i64,
        10 => i32::MIN as i64,
        11 => i32::MAX as i64,
        12 => -(rng.below(70000) as i64) - 1,
        13 => e + rng.below(70000) as i64,
        _ => rng.below(extent as u64) as i64,
    };
    v.clamp(i32::MIN as i64, i32::MAX as i64) as i32
}

/// one shape of a draw_iter stream; appends to `out`
fn stream_shape(rng: &mut Rng, lw: u32, lh: u32, max_px: u64, out: &mut Vec<(i32, i32, u32)>) {
    let edge = |rng: &mut Rng, ext: u32| -> i32 {
        (match rng.below(10) {
            0 => 0,
            1 => 1.min(ext - 1),
            2 => ext - 1,
            3 => ext.saturating_sub(2),
            _ => rng.below(ext as u64) as u32,
        }) as i32
    };
    let rx = |rng: &mut Rng| edge(rng, lw);
    let ry = |rng: &mut Rng| edge(rng, lh);
    let shape = rng.below(13);
    match shape {
        0 | 1 => {
            // one left-to-right run of a chosen length, possibly continuing on the next rows
            let mut len = if rng.coin() { *rng.pick(&RUN_LENGTHS) as u64 } else { 1 + rng.below(200) };
            len = len.min(max_px);
            let (mut x, mut y) = (if rng.coin() { 0 } else { rx(rng) }, ry(rng));
            for _ in 0..len {
                if x as u32 >= lw {
                    x = 0;
                    y += 1;
                    if y as u32 >= lh {
                        break;
                    }
                }
                out.push((x, y, gen_colour(rng)));
                x += 1;
            }
        }
        2 | 3 => {
            // block of equal rows: exactly filling / overflowing the block capacity by one row
            let shapes: [(u32, u32); 10] = [(50, 2), (25, 4), (10, 10), (20, 5), (5, 20), (1, 100), (50, 3), (25, 5), (10, 11), (33, 3)];
            let (mut l, mut r) = *rng.pick(&shapes);
            if rng.chance(1, 4) {
                l = 1 + rng.below(60) as u32;
                r = 1 + rng.below(12) as u32;
            }
            l = l.min(lw);
            r = r.min(lh);
            while (l as u64) * (r as u64) > max_px && r > 1 {
                r -= 1;
            }
            let x0 = rng.below((lw - l) as u64 + 1) as i32;
            let y0 = rng.below((lh - r) as u64 + 1) as i32;
            for yy in 0..r as i32 {
                for xx in 0..l as i32 {
                    out.push((x0 + xx, y0 + yy, gen_colour(rng)));
                }
            }
        }
        4 => {
            // rows that change length or start column
            let rows = 2 + rng.below(6) as i32;
            let y0 = ry(rng);
            for r in 0..rows {
                let y = y0 + r;
                if y as u32 >= lh {
                    break;
                }
                let x0 = rx(rng);
                let len = 1 + rng.below(20.min(lw as u64 - x0 as u64));
                for k in 0..len as i32 {
                    out.push((x0 + k, y, gen_colour(rng)));
                }
            }
        }
        5 => {
            // right-to-left
            let len = (1 + rng.below(60)).min(lw as u64).min(max_px);
            let x0 = rng.below(lw as u64 - len + 1) as i32 + len as i32 - 1;
            let y = ry(rng);
            for k in 0..len as i32 {
                out.push((x0 - k, y, gen_colour(rng)));
            }
        }
        6 => {
            // column-major (vertical line)
            let len = (1 + rng.below(120)).min(lh as u64).min(max_px);
            let y0 = rng.below(lh as u64 - len + 1) as i32;
            let x = rx(rng);
            for k in 0..len as i32 {
                out.push((x, y0 + k, gen_colour(rng)));
            }
        }
        7 => {
            // repeated positions with different colours, adjacent and far apart
            let (x, y) = (rx(rng), ry(rng));
            let n = 2 + rng.below(5);
            for _ in 0..n {
                out.push((x, y, gen_colour(rng)));
                if rng.coin() {
                    out.push((rx(rng), ry(rng), gen_colour(rng)));
                }
            }
        }
        8 => {
            // a run, then the same run again with other colours (overwrite order)
            let len = (1 + rng.below(70)).min(lw as u64).min(max_px / 2 + 1);
            let x0 = rng.below(lw as u64 - len + 1) as i32;
            let y = ry(rng);
            for _ in 0..2 {
                for k in 0..len as i32 {
                    out.push((x0 + k, y, gen_colour(rng)));
                }
            }
        }
        9 => {
            // block followed by a trailing single-pixel row
            let l = (2 + rng.below(30) as u32).min(lw);
            let r = (1 + rng.below(4) as u32).min(lh);
            let x0 = rng.below((lw - l) as u64 + 1) as i32;
            let y0 = rng.below((lh - r) as u64 + 1) as i32;
            for yy in 0..r as i32 {
                for xx in 0..l as i32 {
                    out.push((x0 + xx, y0 + yy, gen_colour(rng)));
                }
            }
            if ((y0 + r as i32) as u32) < lh {
                out.push((x0, y0 + r as i32, gen_colour(rng)));
            }
        }
        11 => {
            // a few equal rows, then one of them (often the last) drawn again right away
            let l = (1 + rng.below(24) as u32).min(lw);
            let r = (2 + rng.below(3) as u32).min(lh);
            let x0 = rng.below((lw - l) as u64 + 1) as i32;
            let y0 = match rng.below(3) {
                0 => 0,
                _ => rng.below((lh - r) as u64 + 1) as i32,
            };
            for yy in 0..r as i32 {
                for xx in 0..l as i32 {
                    out.push((x0 + xx, y0 + yy, gen_colour(rng)));
                }
            }
            let again = if rng.chance(2, 3) { r as i32 - 1 } else { rng.below(r as u64) as i32 };
            for xx in 0..l as i32 {
                out.push((x0 + xx, y0 + again, gen_colour(rng)));
            }
        }
        _ => {
            // uniformly random points
            let n = 1 + rng.below(40.min(max_px));
            for _ in 0..n {
                out.push((rx(rng), ry(rng), gen_colour(rng)));
            }
        }
    }
}

pub fn gen_stream(rng: &mut Rng, lw: u32, lh: u32, max_px: u64, oob: Oob) -> Vec<(i32, i32, u32)> {
    let mut out = Vec::new();
    let parts = 1 + rng.below(3);
    for _ in 0..parts {
        if out.len() as u64 >= max_px {
            break;
        }
        let left = max_px - out.len() as u64;
        stream_shape(rng, lw, lh, left, &mut out);
    }
    out.truncate(max_px as usize);
    match oob {
        Oob::None => {}
        Oob::Negative => {
            let n = rng.below(4);
            for _ in 0..n {
                let at = rng.below(out.len() as u64 + 1) as usize;
                let p = match rng.below(3) {
                    0 => (-1 - rng.below(5) as i32, rng.below(lh as u64) as i32),
                    1 => (rng.below(lw as u64) as i32, -1 - rng.below(5) as i32),
                    _ => (i32::MIN, i32::MIN),
                };
                out.insert(at, (p.0, p.1, gen_colour(rng)));
            }
        }
        Oob::Full => {
            let n = 1 + rng.below(6);
            for _ in 0..n {
                let at = rng.below(out.len() as u64 + 1) as usize;
                let p = match rng.below(4) {
                    0 => (boundary_coord(rng, lw), rng.below(lh as u64) as i32),
                    1 => (rng.below(lw as u64) as i32, boundary_coord(rng, lh)),
                    2 => (boundary_coord(rng, lw), boundary_coord(rng, lh)),
                    _ => {
                        // continue an in-bounds run over the right edge
                        if let Some(&(x, y, _)) = out.get(at.saturating_sub(1)) {
                            (x.saturating_add(1), y)
                        } else {
                            (lw as i32, 0)
                        }
                    }
                };
                out.insert(at, (p.0, p.1, gen_colour(rng)));
            }
            if rng.chance(1, 6) {
                // a whole run straddling the right edge
                let y = rng.below(lh as u64) as i32;
                let x0 = lw as i32 - 1 - rng.below(3.min(lw as u64)) as i32;
                for k in 0..(2 + rng.below(6)) as i32 {
                    out.push((x0 + k, y, gen_colour(rng)));
                }
            }
            if rng.chance(1, 6) {
                // a column running over the bottom edge
                let x = rng.below(lw as u64) as i32;
                let y0 = lh as i32 - 1 - rng.below(3.min(lh as u64)) as i32;
                for k in 0..(2 + rng.below(6)) as i32 {
                    out.push((x, y0 + k, gen_colour(rng)));
                }
            }
        }
    }
    out
}

fn visible_of(r: &Rect, lw: u32, lh: u32) -> u64 {
    if r.w == 0 || r.h == 0 {
        return 0;
    }
    let x0 = (r.x as i64).max(0);
    let y0 = (r.y as i64).max(0);
    let x1 = (r.x as i64 + r.w as i64 - 1).min(lw as i64 - 1);
    let y1 = (r.y as i64 + r.h as i64 - 1).min(lh as i64 - 1);
    if x0 > x1 || y0 > y1 {
        0
    } else {
        ((x1 - x0 + 1) * (y1 - y0 + 1)) as u64
    }
}

/// the shadow build with the 16-bit-pointer helpers skips colours one `next()` at a time:
/// legal, but linear in the rectangle area - keep areas where a run stays cheap
pub fn ptr16_build() -> bool {
    static P: std::sync::OnceLock<bool> = std::sync::OnceLock::new();
    *P.get_or_init(|| std::env::var("VERIF_BUILD_TAG").map(|t| t.contains("ptr16")).unwrap_or(false))
}

fn valid_eg_rect(r: &Rect) -> bool {
    // top_left + size must be representable in i32 and the rectangle has < 2^32 points
    (r.x as i64 + r.w as i64) <= i32::MAX as i64 && (r.y as i64 + r.h as i64) <= i32::MAX as i64 && (r.w as u64 * r.h as u64) < (1u64 << 32)
}

/// rectangle inside the logical bounding box
pub fn gen_rect_inside(rng: &mut Rng, lw: u32, lh: u32, max_visible: u64) -> Rect {
    let mut w = 1 + rng.below(lw as u64) as u32;
    let mut h = 1 + rng.below(lh as u64) as u32;
    if rng.chance(1, 4) {
        // tiny: a handful of pixels in one row (chunk sizes below any buffer capacity)
        w = (1 + rng.below(8) as u32).min(lw);
        h = if rng.chance(3, 4) { 1 } else { (1 + rng.below(3) as u32).min(lh) };
    }
    if rng.chance(1, 5) {
        w = lw;
    }
    if rng.chance(1, 5) {
        h = lh;
    }
    while w as u64 * h as u64 > max_visible {
        if h > 1 && (rng.coin() || w == 1) {
            h = (h / 2).max(1);
        } else {
            w = (w / 2).max(1);
        }
    }
    let x = match rng.below(4) {
        0 => 0,
        1 => lw - w,
        _ => rng.below((lw - w) as u64 + 1) as u32,
    };
    let y = match rng.below(4) {
        0 => 0,
        1 => lh - h,
        _ => rng.below((lh - h) as u64 + 1) as u32,
    };
    Rect { x: x as i32, y: y as i32, w, h }
}

/// rectangle in any relation to the display
pub fn gen_rect_any(rng: &mut Rng, lw: u32, lh: u32, max_visible: u64) -> Rect {
    for _ in 0..40 {
        let lwi = lw as i64;
        let lhi = lh as i64;
        let rel = rng.below(14);
        let span = |rng: &mut Rng, ext: i64| -> (i64, i64) {
            // (start, len) crossing or not crossing [0, ext)
            match rng.below(7) {
                0 => {
                    let a = rng.below(ext as u64) as i64;
                    (a, 1 + rng.below((ext - a) as u64) as i64)
                }
                1 => (-(1 + rng.below(20) as i64), 1 + rng.below(40) as i64),
                2 => {
                    let a = (ext - 1 - rng.below(10.min(ext as u64)) as i64).max(0);
                    (a, 1 + rng.below(40) as i64)
                }
                3 => (-(rng.below(30) as i64), ext + rng.below(60) as i64 + 1),
                4 => (ext + rng.below(10) as i64, 1 + rng.below(20) as i64),
                5 => (-(30 + rng.below(30) as i64), 1 + rng.below(30) as i64),
                _ => (0, ext),
            }
        };
        let r = match rel {
            0 => Rect { x: rng.range(-5, lwi + 5) as i32, y: rng.range(-5, lhi + 5) as i32, w: 0, h: rng.below(10) as u32 },
            1 => Rect { x: rng.range(-5, lwi + 5) as i32, y: rng.range(-5, lhi + 5) as i32, w: rng.below(10) as u32, h: 0 },
            2 => {
                // enormous with a small visible part near a corner
                let w = 1 << (16 + rng.below(15));
                let h = ((1u64 << 32) - 1) / w as u64;
                let h = (1 + rng.below(h.min(1 << 31))) as u32;
                let x = match rng.below(3) {
                    0 => -(w as i64) + 1 + rng.below(8) as i64,
                    1 => lwi - 1 - rng.below(8.min(lw as u64)) as i64,
                    _ => -(w as i64 / 2),
                };
                let y = match rng.below(3) {
                    0 => -(h as i64) + 1 + rng.below(8) as i64,
                    1 => lhi - 1 - rng.below(8.min(lh as u64)) as i64,
                    _ => -(h as i64 / 2),
                };
                Rect { x: x.clamp(i32::MIN as i64, i32::MAX as i64) as i32, y: y.clamp(i32::MIN as i64, i32::MAX as i64) as i32, w: w as u32, h }
            }
            3 if rng.coin() => {
                // an edge at -65536*n (+-1): a truncating cast makes it look like 0
                let n = 1 + rng.below(3) as i64;
                let d = rng.range(-1, 1);
                if rng.coin() {
                    let y = -65536 * n + d;
                    let x = rng.below(lw as u64) as i64;
                    let w = 1 + rng.below((lw as u64 - x as u64).min(64)) as i64;
                    let h = -y + 1 + rng.below(lh as u64 + 4) as i64;
                    Rect { x: x as i32, y: y as i32, w: w as u32, h: h as u32 }
                } else {
                    let x = -65536 * n + d;
                    let y = rng.below(lh as u64) as i64;
                    let h = 1 + rng.below((lh as u64 - y as u64).min(64)) as i64;
                    let w = -x + 1 + rng.below(lw as u64 + 4) as i64;
                    Rect { x: x as i32, y: y as i32, w: w as u32, h: h as u32 }
                }
            }
            3 => Rect { x: i32::MIN, y: i32::MIN, w: 1 + rng.below(100) as u32, h: 1 + rng.below(100) as u32 },
            4 => Rect { x: i32::MAX - 50, y: rng.range(-5, lhi) as i32, w: 1 + rng.below(50) as u32, h: 1 + rng.below(50) as u32 },
            5 if rng.coin() => {
                // the part hanging over the right (or bottom) edge is 65536*n (+-1) long: a width
                // compared after a truncating cast makes the clipped rectangle look complete
                let n = 1 + rng.below(3) as i64;
                let d = rng.range(-1, 1);
                if rng.coin() {
                    let x = rng.below(lw as u64) as i64;
                    let w = (lwi - x) + 65536 * n + d;
                    let y = rng.range(-2, (lhi - 2).max(0));
                    let h = 2 + rng.below(5) as i64;
                    Rect { x: x as i32, y: y as i32, w: w as u32, h: h as u32 }
                } else {
                    let y = rng.below(lh as u64) as i64;
                    let h = (lhi - y) + 65536 * n + d;
                    let x = rng.range(-2, (lwi - 2).max(0));
                    let w = 2 + rng.below(5) as i64;
                    Rect { x: x as i32, y: y as i32, w: w as u32, h: h as u32 }
                }
            }
            5 => Rect { x: 65536 + rng.range(-2, lwi) as i32, y: rng.range(0, lhi - 1) as i32, w: 1 + rng.below(20) as u32, h: 1 + rng.below(20) as u32 },
            _ => {
                let (x, w) = span(rng, lwi);
                let (y, h) = span(rng, lhi);
                Rect { x: x as i32, y: y as i32, w: w as u32, h: h as u32 }
            }
        };
        if ptr16_build() && r.w as u64 * r.h as u64 > (1 << 20) {
            continue;
        }
        if valid_eg_rect(&r) && visible_of(&r, lw, lh) <= max_visible {
            return r;
        }
    }
    gen_rect_inside(rng, lw, lh, max_visible)
}

/// colour stream length for a fill_contiguous of `rect`
pub fn gen_colors_for(rng: &mut Rng, rect: &Rect, lw: u32, lh: u32, exact_or_less: bool) -> Colors {
    let area = rect.w as u64 * rect.h as u64;
    let visible = visible_of(rect, lw, lh);
    let initial_skip = {
        let dy = (-(rect.y as i64)).max(0) as u64;
        let dx = (-(rect.x as i64)).max(0) as u64;
        dy * rect.w as u64 + dx
    };
    if area >= 1 && area <= 96 && rng.chance(1, 3) {
        // explicit list drawn from the run's palette (value reuse across calls)
        let len = match rng.below(4) {
            0 if !exact_or_less => area + 1 + rng.below(4),
            1 => rng.below(area + 1),
            _ => area,
        };
        return Colors::List((0..len).map(|_| if rng.chance(3, 4) { rng.palette[rng.below(3) as usize] } else { gen_colour(rng) }).collect());
    }
    let choice = if exact_or_less { rng.below(5) } else { rng.below(10) };
    let len = match choice {
        0 | 1 | 2 => area,
        3 => area.saturating_sub(1),
        4 => rng.below(area + 1),
        5 => area + 1,
        6 => area + 1000,
        7 => initial_skip.saturating_sub(rng.below(3)),
        8 => initial_skip + rng.below(visible + rect.w as u64 + 1),
        _ => 0,
    };
    Colors::Formula { len, salt: rng.below(1 << 16) as u32 }
}

#[derive(Clone, Debug)]
pub struct ProgOpts {
    /// per cent of calls that are not drawing calls at all (tearing effect, scroll, sleep,
    /// wake): they must not disturb the drawing around them
    pub other_pct: u64,
    pub min_ops: u64,
    pub max_ops: u64,
    /// weights: set_pixel, set_pixels, draw_iter, fill_contiguous, fill_solid, clear
    pub weights: [u32; 6],
    pub oob: Oob,
    /// rectangles may leave the bounding box
    pub rect_any: bool,
}

/// drawing program against a display of logical size (lw, lh)
pub fn gen_draw_program(rng: &mut Rng, cfg: &Config, orient: Orient, o: &ProgOpts) -> Vec<Op> {
    let (lw, lh) = if orient.rot % 2 == 0 { (cfg.w as u32, cfg.h as u32) } else { (cfg.h as u32, cfg.w as u32) };
    let budget = px_budget(cfg.transport);
    let n = o.min_ops + rng.below(o.max_ops - o.min_ops + 1);
    // swarm: per-run random subset of enabled kinds
    let mut weights = o.weights;
    if rng.chance(1, 3) {
        for w in weights.iter_mut() {
            if rng.chance(1, 3) {
                *w = 0;
            }
        }
        if weights.iter().all(|&w| w == 0) {
            weights = o.weights;
        }
    }
    let mut prog = Vec::new();
    for _ in 0..n {
        if o.other_pct > 0 && rng.chance(o.other_pct, 100) {
            prog.push(match rng.below(6) {
                0 => Op::Tearing { te: rng.below(3) as u8 },
                1 => Op::ScrollOffset { offset: rng.below(65536) as u16 },
                2 => Op::ScrollRegion { top: rng.below(40) as u16, bottom: rng.below(40) as u16 },
                3 => Op::Sleep,
                4 => Op::Wake,
                _ => Op::Tearing { te: 0 },
            });
            continue;
        }
        let op = match rng.weighted(&weights) {
            0 => Op::SetPixel { x: rng.below(lw as u64) as u16, y: rng.below(lh as u64) as u16, c: gen_colour(rng) },
            1 => {
                let r = gen_rect_inside(rng, lw, lh, budget);
                let colors = gen_colors_for(rng, &r, lw, lh, true);
                Op::SetPixels { sx: r.x as u16, sy: r.y as u16, ex: (r.x as u32 + r.w - 1) as u16, ey: (r.y as u32 + r.h - 1) as u16, colors }
            }
            2 => Op::DrawIter { pixels: gen_stream(rng, lw, lh, budget.min(400), o.oob) },
            3 => {
                let rect = if o.rect_any { gen_rect_any(rng, lw, lh, budget) } else { gen_rect_inside(rng, lw, lh, budget) };
                let colors = gen_colors_for(rng, &rect, lw, lh, false);
                Op::FillContiguous { rect, colors }
            }
            4 => {
                let rect = if o.rect_any { gen_rect_any(rng, lw, lh, budget) } else { gen_rect_inside(rng, lw, lh, budget) };
                Op::FillSolid { rect, c: gen_colour(rng) }
            }
            _ => {
                let cheap_bulk = matches!(cfg.transport, Transport::Trace(_)) || matches!(cfg.transport, Transport::Spi { buf } if buf >= 256 && lw as u64 * lh as u64 <= 160_000);
                if lw as u64 * lh as u64 <= budget || cheap_bulk {
                    Op::Clear { c: gen_colour(rng) }
                } else {
                    Op::FillSolid { rect: gen_rect_inside(rng, lw, lh, budget), c: gen_colour(rng) }
                }
            }
        };
        prog.push(op);
    }
    prog
}

/// fault kinds applicable to a transport
pub fn fault_kinds(t: Transport) -> Vec<FaultKind> {
    match t {
        Transport::Spi { .. } => vec![
            FaultKind::PinFailNoEffect,
            FaultKind::PinFailWithEffect,
            FaultKind::SpiFailBefore,
            FaultKind::SpiFailTorn(0),
            FaultKind::SpiFailAfter,
        ],
        Transport::Par8 | Transport::Par16 => vec![FaultKind::PinFailNoEffect, FaultKind::PinFailWithEffect],
        Transport::Trace(_) => vec![FaultKind::SpiFailBefore],
    }
}

/// place `n` faults inside the given low-level-operation ranges (never while idle)
pub fn gen_faults(rng: &mut Rng, t: Transport, ranges: &[(u64, u64)], n: u64) -> Vec<Fault> {
    let kinds = fault_kinds(t);
    let busy: Vec<&(u64, u64)> = ranges.iter().filter(|r| r.1 > r.0).collect();
    let mut out: Vec<Fault> = Vec::new();
    if busy.is_empty() {
        return out;
    }
    for _ in 0..n {
        let r = *rng.pick(&busy);
        // bias to the first and last operations of a call
        let llop = match rng.below(5) {
            0 => r.0,
            1 => r.1 - 1,
            _ => r.0 + rng.below(r.1 - r.0),
        };
        let mut kind = *rng.pick(&kinds);
        if let FaultKind::SpiFailTorn(_) = kind {
            kind = FaultKind::SpiFailTorn(rng.below(1 << 20) as u32);
        }
        if !out.iter().any(|f| f.llop == llop) {
            out.push(Fault { llop, kind });
        }
    }
    out.sort_by_key(|f| f.llop);
    out
}
