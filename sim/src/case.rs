//! Explicit, serialisable description of one simulated run: configuration, program,
//! fault plan. Replay executes this, not the seed.

use crate::world::Fault;
use serde::{Deserialize, Serialize};

#[derive(Clone, Copy, Debug, PartialEq, Eq, PartialOrd, Ord, Serialize, Deserialize)]
pub enum ModelId {
    ILI9341Rgb565,
    ILI9341Rgb666,
    ILI9342CRgb565,
    ILI9342CRgb666,
    ILI9486Rgb565,
    ILI9486Rgb666,
    ILI9488Rgb565,
    ILI9488Rgb666,
    ST7789,
    ST7735s,
    ST7796,
    GC9107,
    GC9A01,
    RM67162,
    // external models (SimModel<W,H>) - "arbitrary external Model impls"
    Sim1x1,
    Sim1x65535,
    Sim65535x1,
    Sim65535x65535,
    Sim255x257,
    Sim37x53,
    Sim46341x46342,
    Sim5x3,
    Sim3x5,
    Sim64x48Rgb666,
    Sim2048x2048,
    /// external model of a panel that is hard-wired BGR and scanned bottom-to-top: its init
    /// writes (and returns) an address mode with those bits set whatever the options say
    SimHwBgr48x64,
    Sim256x256,
    Sim480x800,
}

pub const BUILTIN_MODELS: [ModelId; 14] = [
    ModelId::ILI9341Rgb565,
    ModelId::ILI9341Rgb666,
    ModelId::ILI9342CRgb565,
    ModelId::ILI9342CRgb666,
    ModelId::ILI9486Rgb565,
    ModelId::ILI9486Rgb666,
    ModelId::ILI9488Rgb565,
    ModelId::ILI9488Rgb666,
    ModelId::ST7789,
    ModelId::ST7735s,
    ModelId::ST7796,
    ModelId::GC9107,
    ModelId::GC9A01,
    ModelId::RM67162,
];

pub const SIM_MODELS: [ModelId; 14] = [
    ModelId::SimHwBgr48x64,
    ModelId::Sim256x256,
    ModelId::Sim480x800,
    ModelId::Sim1x1,
    ModelId::Sim1x65535,
    ModelId::Sim65535x1,
    ModelId::Sim65535x65535,
    ModelId::Sim255x257,
    ModelId::Sim37x53,
    ModelId::Sim46341x46342,
    ModelId::Sim5x3,
    ModelId::Sim3x5,
    ModelId::Sim64x48Rgb666,
    ModelId::Sim2048x2048,
];

impl ModelId {
    pub fn fb(self) -> (u16, u16) {
        use ModelId::*;
        match self {
            ILI9341Rgb565 | ILI9341Rgb666 | ST7789 => (240, 320),
            ILI9342CRgb565 | ILI9342CRgb666 => (320, 240),
            ILI9486Rgb565 | ILI9486Rgb666 | ILI9488Rgb565 | ILI9488Rgb666 | ST7796 => (320, 480),
            ST7735s => (132, 162),
            GC9107 => (128, 160),
            GC9A01 => (240, 240),
            RM67162 => (240, 536),
            Sim1x1 => (1, 1),
            Sim1x65535 => (1, 65535),
            Sim65535x1 => (65535, 1),
            Sim65535x65535 => (65535, 65535),
            Sim255x257 => (255, 257),
            Sim37x53 => (37, 53),
            Sim46341x46342 => (46341, 46342),
            Sim5x3 => (5, 3),
            Sim3x5 => (3, 5),
            Sim64x48Rgb666 => (64, 48),
            Sim2048x2048 => (2048, 2048),
            SimHwBgr48x64 => (48, 64),
            Sim256x256 => (256, 256),
            Sim480x800 => (480, 800),
        }
    }
    pub fn rgb666(self) -> bool {
        use ModelId::*;
        matches!(self, ILI9341Rgb666 | ILI9342CRgb666 | ILI9486Rgb666 | ILI9488Rgb666 | Sim64x48Rgb666)
    }
    pub fn builtin(self) -> bool {
        BUILTIN_MODELS.contains(&self)
    }
    pub fn paged(self) -> bool {
        self == ModelId::RM67162
    }
    /// number of colour values of the colour type
    pub fn colour_space(self) -> u32 {
        if self.rgb666() {
            1 << 18
        } else {
            1 << 16
        }
    }
}

#[derive(Clone, Copy, Debug, PartialEq, Eq, PartialOrd, Ord, Serialize, Deserialize)]
pub enum Kind {
    Serial,
    P8,
    P16,
}

#[derive(Clone, Copy, Debug, PartialEq, Eq, PartialOrd, Ord, Serialize, Deserialize)]
pub enum Transport {
    /// real SpiInterface over SimSpi + SimPin(DC); staging buffer length in bytes
    Spi { buf: u32 },
    /// real ParallelInterface over real Generic8BitBus over 8 SimPins + DC + WR
    Par8,
    /// real ParallelInterface over real Generic16BitBus over 16 SimPins + DC + WR
    Par16,
    /// recording Interface stub (transport stubbed) of the given kind
    Trace(Kind),
}

impl Transport {
    pub fn kind(self) -> Kind {
        match self {
            Transport::Spi { .. } => Kind::Serial,
            Transport::Par8 => Kind::P8,
            Transport::Par16 => Kind::P16,
            Transport::Trace(k) => k,
        }
    }
    pub fn pin_level(self) -> bool {
        !matches!(self, Transport::Trace(_))
    }
    pub fn bus16(self) -> bool {
        self.kind() == Kind::P16
    }
}

#[derive(Clone, Copy, Debug, PartialEq, Eq, PartialOrd, Ord, Serialize, Deserialize)]
pub struct Orient {
    /// 0,1,2,3 = 0,90,180,270 degrees
    pub rot: u8,
    pub mirrored: bool,
}

#[derive(Clone, Debug, PartialEq, Eq, Serialize, Deserialize)]
pub struct Config {
    pub model: ModelId,
    pub transport: Transport,
    pub w: u16,
    pub h: u16,
    pub ox: u16,
    pub oy: u16,
    pub orient: Orient,
    pub bgr: bool,
    pub invert: bool,
    /// bit0 = bottom-to-top, bit1 = right-to-left
    pub refresh: u8,
    pub rst: bool,
    /// initial levels: bit0 DC high, bit1 WR high, bit2 RST high
    pub init_levels: u8,
    pub clock_all_methods: bool,
    pub latch_partial: bool,
    /// hand the interface to the builder as `&mut DI` (the crate's blanket
    /// `impl Interface for &mut T`) instead of by value - Interface-level transports only
    #[serde(default)]
    pub by_ref: bool,
    /// order in which the builder's setters are called (Lehmer code of the permutation of
    /// size, offset, orientation, colour order, inversion, refresh order; bit 15: reset_pin
    /// first instead of last). 0 = the order of the crate's own examples.
    #[serde(default)]
    pub builder_order: u16,
    /// the reset pin is a zero-sized type (as real HAL pins are) instead of a handle
    #[serde(default)]
    pub zst_rst: bool,
    /// build the generic parallel bus with `From<(pins..)>` instead of `new`
    #[serde(default)]
    pub bus_from: bool,
}

impl Config {
    /// configuration after a `Reinit` op
    pub fn after_reinit(&self, op: &Op) -> Config {
        let mut c = self.clone();
        if let Op::Reinit { w, h, ox, oy, orient, bgr, invert, refresh } = op {
            c.w = *w;
            c.h = *h;
            c.ox = *ox;
            c.oy = *oy;
            c.orient = *orient;
            c.bgr = *bgr;
            c.invert = *invert;
            c.refresh = *refresh;
        }
        c
    }
    /// colour-order and refresh-order bits the controller must hold (an external model may
    /// hard-wire them)
    pub fn madctl_bits(&self) -> (bool, u8) {
        if self.model == ModelId::SimHwBgr48x64 {
            (true, 1)
        } else {
            (self.bgr, self.refresh)
        }
    }
    pub fn logical_size(&self) -> (u32, u32) {
        if self.orient.rot % 2 == 0 {
            (self.w as u32, self.h as u32)
        } else {
            (self.h as u32, self.w as u32)
        }
    }
    pub fn fits(&self) -> bool {
        let (fw, fh) = self.model.fb();
        self.w >= 1
            && self.h >= 1
            && self.w as u64 + self.ox as u64 <= fw as u64
            && self.h as u64 + self.oy as u64 <= fh as u64
    }
}

/// A colour stream: explicit values, or the index-encoding formula f(k) of length `len`
/// (O(1) nth, so that a 2^31 point rectangle with 40 visible points costs 40 steps).
#[derive(Clone, Debug, PartialEq, Eq, Serialize, Deserialize)]
pub enum Colors {
    List(Vec<u32>),
    Formula { len: u64, salt: u32 },
}

impl Colors {
    pub fn len(&self) -> u64 {
        match self {
            Colors::List(v) => v.len() as u64,
            Colors::Formula { len, .. } => *len,
        }
    }
    /// k-th colour, masked to the colour space
    pub fn at(&self, k: u64, space: u32) -> u32 {
        match self {
            Colors::List(v) => v[k as usize] & (space - 1),
            Colors::Formula { salt, .. } => formula(k, *salt) & (space - 1),
        }
    }
}

#[inline]
pub fn formula(k: u64, salt: u32) -> u32 {
    (k.wrapping_mul(40503).wrapping_add(7).wrapping_add(salt as u64 * 977)) as u32
}

#[derive(Clone, Copy, Debug, PartialEq, Eq, Serialize, Deserialize)]
pub struct Rect {
    pub x: i32,
    pub y: i32,
    pub w: u32,
    pub h: u32,
}

#[derive(Clone, Debug, PartialEq, Eq, Serialize, Deserialize)]
pub enum Op {
    SetPixel { x: u16, y: u16, c: u32 },
    SetPixels { sx: u16, sy: u16, ex: u16, ey: u16, colors: Colors },
    DrawIter { pixels: Vec<(i32, i32, u32)> },
    FillContiguous { rect: Rect, colors: Colors },
    FillSolid { rect: Rect, c: u32 },
    Clear { c: u32 },
    SetOrientation { o: Orient },
    Sleep,
    Wake,
    ScrollRegion { top: u16, bottom: u16 },
    ScrollOffset { offset: u16 },
    /// 0 off, 1 vertical, 2 horizontal and vertical
    Tearing { te: u8 },
    TestImage,
    /// "restart": release the display down to interface (for the generic parallel buses: down
    /// to the pins, and a new bus is built from them) and initialise again with new options.
    /// Frame memory survives, everything the driver believed does not.
    Reinit { w: u16, h: u16, ox: u16, oy: u16, orient: Orient, bgr: bool, invert: bool, refresh: u8 },
}

impl Op {
    pub fn name(&self) -> &'static str {
        match self {
            Op::SetPixel { .. } => "set_pixel",
            Op::SetPixels { .. } => "set_pixels",
            Op::DrawIter { .. } => "draw_iter",
            Op::FillContiguous { .. } => "fill_contiguous",
            Op::FillSolid { .. } => "fill_solid",
            Op::Clear { .. } => "clear",
            Op::SetOrientation { .. } => "set_orientation",
            Op::Sleep => "sleep",
            Op::Wake => "wake",
            Op::ScrollRegion { .. } => "set_vertical_scroll_region",
            Op::ScrollOffset { .. } => "set_vertical_scroll_offset",
            Op::Tearing { .. } => "set_tearing_effect",
            Op::TestImage => "test_image",
            Op::Reinit { .. } => "reinit",
        }
    }
    pub fn is_drawing(&self) -> bool {
        matches!(
            self,
            Op::SetPixel { .. }
                | Op::SetPixels { .. }
                | Op::DrawIter { .. }
                | Op::FillContiguous { .. }
                | Op::FillSolid { .. }
                | Op::Clear { .. }
                | Op::TestImage
        )
    }
    pub fn is_draw_target(&self) -> bool {
        matches!(
            self,
            Op::DrawIter { .. } | Op::FillContiguous { .. } | Op::FillSolid { .. } | Op::Clear { .. } | Op::TestImage
        )
    }
}

/// One display-level simulated run
#[derive(Clone, Debug, PartialEq, Eq, Serialize, Deserialize)]
pub struct Case {
    pub property: String,
    pub seed: u64,
    pub config: Config,
    pub program: Vec<Op>,
    pub faults: Vec<Fault>,
    /// check-specific mode word (e.g. which sub-scenario of the property)
    pub mode: String,
}
